#!/bin/bash
# For every /verif/seeded/<id>: apply the patch to a scratch copy of a snapshot of /repo's working
# tree, run the owner property's quick check against it; with ALLPROPS=1 a seed the owner misses is
# also tried against every other property.
cd /verif
ALL="C01 C02 C03 C04 C05 C06 C07 C08 C09 C11 C12 C13 C14 C15 C16 C17 C18 C19 C20"
if [ -z "${MUT_SRC:-}" ]; then
  SNAP=$(mktemp -d /tmp/seedsnap.XXXXXX); trap 'rm -rf "$SNAP"' EXIT
  rsync -a --exclude .git /repo/ "$SNAP/"; export MUT_SRC=$SNAP
  mkdir -p $SNAP/.verif && cp baseline_obligations.json baseline_params.json known_findings.json residue.json $SNAP/.verif/ && export MUT_VERIF=$SNAP/.verif
fi
for d in seeded/*/; do
  id=$(basename $d); prop=${id%-*}
  [ -n "${1:-}" ] && [ "$1" != "$id" ] && continue
  caught=""; obl=""
  out=$(tools/mut.sh /verif/$d/patch.diff -- check $prop 2>&1)
  if echo "$out" | grep -q "^VIOLATION"; then caught=$prop; obl=$(echo "$out" | grep "^VIOLATION" | sed 's/.*obligation=\([^ ]*\).*/\1/' | sort -u | head -4 | paste -sd' '); fi
  if [ -z "$caught" ] && [ -n "${ALLPROPS:-}" ]; then
    for p in $ALL; do [ $p = $prop ] && continue
      out=$(tools/mut.sh /verif/$d/patch.diff -- check $p 2>&1)
      if echo "$out" | grep -q "^VIOLATION"; then caught="$caught $p"; obl="$obl $(echo "$out" | grep "^VIOLATION" | sed 's/.*obligation=\([^ ]*\).*/\1/' | sort -u | head -2 | paste -sd' ')"; fi
    done
  fi
  echo "$id caught_by=[${caught# }] obligations=[${obl# }]"
done
