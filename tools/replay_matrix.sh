#!/bin/bash
# For every seeded change: run the owner property's quick check WITH replay against a patched
# scratch copy and record, per VIOLATION line, whether the counterexample reproduced on the real
# code (no suffix) or not (no-failing-input-found).
cd /verif
for d in seeded/*/; do
  id=$(basename $d); prop=${id%-*}
  [ -n "${1:-}" ] && [ "$1" != "$id" ] && continue
  out=$(tools/mut.sh /verif/$d/patch.diff -- check $prop 2>&1)
  tot=$(echo "$out" | grep -c "^VIOLATION")
  nf=$(echo "$out" | grep "^VIOLATION" | grep -c "no-failing-input-found")
  echo "$id violations=$tot replayed_on_real_code=$((tot-nf)) no_failing_input=$nf"
done
