#!/bin/bash
# For every seeded change (or the ones matching $2 glob): run the owner property's quick check WITH
# replay against a patched scratch copy and record, per VIOLATION line, whether the counterexample
# reproduced on the real code or not (no-failing-input-found). usage: tools/replay_matrix.sh [N] [glob]
cd /verif
N=${1:-3}; G=${2:-*}
one() {
  id=$1; prop=${id%-*}
  out=$(tools/mut.sh /verif/seeded/$id/patch.diff -- check $prop 2>&1)
  tot=$(echo "$out" | grep -c "^VIOLATION")
  nf=$(echo "$out" | grep "^VIOLATION" | grep -c "no-failing-input-found")
  echo "$id violations=$tot replayed_on_real_code=$((tot-nf)) no_failing_input=$nf"
}
export -f one
ls -d seeded/$G/ | xargs -n1 basename | xargs -P $N -I{} bash -c 'one {}'
