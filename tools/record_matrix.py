#!/usr/bin/env python3
"""usage: tools/record_matrix.py <matrix log> <run label>
Folds the lines 'ID caught_by=[..] obligations=[..]' written by tools/seed_matrix.sh into
seeded/<ID>/meta.json (field caught_by) and stores a sorted copy of the log as seeded/MATRIX_<label>.log."""
import json, re, sys, os
os.chdir('/verif')
log, label = sys.argv[1], sys.argv[2]
rows = {}
for l in open(log):
    m = re.match(r'^(\S+) caught_by=\[(.*?)\] obligations=\[(.*)\]\s*$', l)
    if m:
        rows[m.group(1)] = (m.group(2).split(), m.group(3))
missed = []
for sid, (checks, obls) in sorted(rows.items()):
    p = f'seeded/{sid}/meta.json'
    if not os.path.exists(p):
        continue
    d = json.load(open(p))
    names = obls.split()
    d['caught_by'] = {'checks': checks, 'failed_obligations': [n.strip() for n in names][:6],
                      'how': f'tools/seed_matrix.sh ({label}, final engine): patch applied to a scratch copy of a snapshot of /repo, quick tier of the owner property (GCV_NOREPLAY=1)'}
    json.dump(d, open(p, 'w'), indent=1)
    if not checks:
        missed.append(sid)
open(f'seeded/MATRIX_{label}.log', 'w').write(''.join(f"{k} caught_by=[{' '.join(v[0])}] obligations=[{v[1]}]\n" for k, v in sorted(rows.items())))
print(len(rows), 'rows recorded; missed:', missed)
