#!/usr/bin/env python3
"""Regenerates the machine-derived tables of DESIGN.md (between the STATUS / MATRIX markers)
from evidence/*.json, seeded/*/meta.json, benign/*.diff and known_findings.json."""
import json, glob, os, re
os.chdir('/verif')

def status_table():
    props = {}
    for l in open('properties.jsonl'):
        d = json.loads(l); props[d['id']] = d['title']
    man = json.load(open('MANIFEST.json'))
    na = {(x.get('id') or x.get('property_id') or x.get('property')) if isinstance(x, dict) else x for x in man.get('not_applicable', [])}
    rows = ['| | functions under contract | named obligations (path instances) | discharged | quick wall s | known findings printed |',
            '|---|---|---|---|---|---|']
    for pid in sorted(props):
        f = f'evidence/{pid}.json'
        if pid in na or not os.path.exists(f):
            rows.append(f'| {pid} | not applicable | | | | |'); continue
        d = json.load(open(f)); c = d['coverage']
        kf = c.get('known_findings_reported') or []
        rows.append(f"| {pid} | {len(c['functions_under_contract'])} | {c['obligations']} ({c['path_instances_solved']}) | {c['discharged']} | {d['wall_s']:.0f} | {len(kf)} |")
    return '\n'.join(rows)

def matrix_table():
    rows = ['| seed | changed | caught by check | failing obligation(s) |', '|---|---|---|---|']
    for p in sorted(glob.glob('seeded/*/meta.json')):
        sid = p.split('/')[1]
        d = json.load(open(p))
        cb = d.get('caught_by', {})
        obl = cb.get('failed_obligations', [])
        o = '<br>'.join('`%s`' % x for x in obl[:3]) + (' …' if len(obl) > 3 else '')
        files = ', '.join(d.get('files') or [])
        rows.append(f"| {sid} | {files} | {' '.join(cb.get('checks', [])) or '**missed**'} | {o} |")
    return '\n'.join(rows)

def benign_table():
    rows = ['| benign refactor | alarms |', '|---|---|']
    res = {}
    if os.path.exists('benign/RESULTS.json'):
        res = json.load(open('benign/RESULTS.json'))
    for p in sorted(glob.glob('benign/*.diff')):
        n = os.path.basename(p)
        rows.append(f"| {n} | {res.get(n, 'not recorded')} |")
    return '\n'.join(rows)

s = open('DESIGN.md').read()
for name, fn in (('STATUS', status_table), ('MATRIX', matrix_table), ('BENIGN', benign_table)):
    b, e = f'<!-- {name}-BEGIN -->', f'<!-- {name}-END -->'
    if b in s and e in s:
        i, j = s.index(b) + len(b), s.index(e)
        s = s[:i] + '\n' + fn() + '\n' + s[j:]
open('DESIGN.md', 'w').write(s)
print('tables regenerated')
