#!/bin/bash
# Runs tools/benign_matrix.sh for every benign diff, N at a time (default 3), and assembles
# benign/RESULTS.json from the per-diff lines. usage: tools/benign_parallel.sh [N] [glob]
cd /verif
N=${1:-3}; G=${2:-*}
mkdir -p /tmp/benign_par && rm -f /tmp/benign_par/*.out
ls benign/$G.diff | xargs -n1 basename | xargs -P $N -I{} sh -c 'tools/benign_matrix.sh {} > /tmp/benign_par/{}.out 2>&1'
cat /tmp/benign_par/*.out | grep -E "^[a-z0-9_]+\.diff:" | sort > /tmp/benign_par/all.txt
python3 - <<'PY'
import json,os
res={}
if os.path.exists('/verif/benign/RESULTS.json'):
    try: res=json.load(open('/verif/benign/RESULTS.json'))
    except Exception: res={}
for l in open('/tmp/benign_par/all.txt'):
    n,r=l.rstrip('\n').split(': ',1)
    res[n]=r
json.dump(res,open('/verif/benign/RESULTS.json','w'),indent=1,sort_keys=True)
print(len(res),'results;',sum(1 for v in res.values() if v.startswith('ALARMS')),'with alarms')
PY
