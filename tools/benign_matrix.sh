#!/bin/bash
# For every /verif/benign/*.diff: apply to a scratch copy of /repo and run every property's quick
# check; a benign refactor must produce no VIOLATION line anywhere. Writes benign/RESULTS.json.
cd /verif
ALL="C01 C02 C03 C04 C05 C06 C07 C08 C09 C11 C12 C13 C14 C15 C16 C17 C18 C19 C20"
echo "{" > /tmp/benign_results.$$
first=1
for d in benign/*.diff; do
  n=$(basename $d); bad=""
  for p in $ALL; do
    out=$(GCV_NOREPLAY=1 tools/mut.sh /verif/$d -- check $p 2>&1)
    if echo "$out" | grep -q "^VIOLATION"; then bad="$bad $p:$(echo "$out" | grep "^VIOLATION" | sed 's/.*obligation=\([^ ]*\).*/\1/' | head -2 | paste -sd',')"; fi
  done
  [ $first = 1 ] || echo "," >> /tmp/benign_results.$$; first=0
  if [ -z "$bad" ]; then r="no alarm in any of the 19 checks"; else r="ALARMS:$bad"; fi
  echo "$n: $r"
  printf ' "%s": "%s"' "$n" "$r" >> /tmp/benign_results.$$
done
echo "" >> /tmp/benign_results.$$; echo "}" >> /tmp/benign_results.$$
mv /tmp/benign_results.$$ benign/RESULTS.json
