#!/bin/bash
# For every /verif/benign/*.diff: apply to a scratch copy of a snapshot of /repo's working tree and
# run the quick check of every property that has a function under contract in a package the
# diff touches (obligations are per function; callers in other packages use contracts, not
# bodies); a benign refactor must produce no VIOLATION line. Writes benign/RESULTS.json.
# ALLPROPS=1 runs all 19 checks for every diff instead.
cd /verif
SNAP=$(mktemp -d /tmp/benignsnap.XXXXXX); trap 'rm -rf "$SNAP"' EXIT
rsync -a --exclude .git /repo/ "$SNAP/"
export MUT_SRC=$SNAP
mkdir -p $SNAP/.verif && cp baseline_obligations.json baseline_params.json known_findings.json residue.json $SNAP/.verif/ && export MUT_VERIF=$SNAP/.verif
bin/gcv list > $SNAP/.gcvlist 2>/dev/null
ALL="C01 C02 C03 C04 C05 C06 C07 C08 C09 C11 C12 C13 C14 C15 C16 C17 C18 C19 C20"
props_for_pkg() { # $1 = package dir, e.g. limit or metric_registry/gometrics
  awk -v pk="$1" '/^C[0-9][0-9] /{p=$1} /^    /{ if (index($0, pk".") > 0) print p }' $SNAP/.gcvlist | sort -u
}
OUT=/tmp/benign_results.$$
echo "{" > $OUT
first=1
for d in benign/*.diff; do
  n=$(basename $d); bad=""; ran=""
  [ -n "${1:-}" ] && [ "$1" != "$n" ] && continue
  pkgs=$(grep '^+++ ' $d | sed 's#^+++ [^/]*/##; s#/[^/]*$##; s#[[:space:]].*$##' | sort -u)
  if [ -n "${ALLPROPS:-}" ]; then props=$ALL; else props=$( (for k in $pkgs; do props_for_pkg "$k"; done; echo C17) | sort -u); fi
  for p in $props; do
    [ $p = C10 ] && continue
    ran="$ran $p"
    out=$(GCV_NOREPLAY=1 tools/mut.sh /verif/$d -- check $p 2>&1)
    if echo "$out" | grep -q "^VIOLATION"; then bad="$bad $p:$(echo "$out" | grep "^VIOLATION" | sed 's/.*obligation=\([^ ]*\).*/\1/' | head -2 | paste -sd',')"; fi
    echo "$out" | grep -q "^C[0-9][0-9]: " || bad="$bad $p:check-did-not-complete"
  done
  [ $first = 1 ] || echo "," >> $OUT; first=0
  if [ -z "$bad" ]; then r="no alarm (checks run:$ran)"; else r="ALARMS:$bad"; fi
  echo "$n: $r"
  printf ' "%s": "%s"' "$n" "$r" >> $OUT
done
echo "" >> $OUT; echo "}" >> $OUT
[ -z "${1:-}" ] && mv $OUT benign/RESULTS.json || rm -f $OUT
