#!/bin/bash
# usage: tools/seed_verify.sh <seed dir with patch.diff, demo_test.go, meta.json> <id>
# Confirms in a scratch worktree of /repo (outside /repo and /verif): the patch applies, the whole
# suite passes with it, the demo fails with it and passes without it. Copies the seed to
# /verif/seeded/<id>/ with a record of what was run. Removes the worktree afterwards.
set -u
SRC=$1; ID=$2
export GOFLAGS=-mod=mod GOPROXY=off GOSUMDB=off GOTOOLCHAIN=local
WT=$(mktemp -d /tmp/seedwt.XXXXXX); rmdir $WT
git -C /repo worktree add -q --detach $WT HEAD || exit 2
trap 'git -C /repo worktree remove --force '"$WT"' >/dev/null 2>&1; rm -rf '"$WT" EXIT
cd $WT
DIR=$(head -1 $SRC/demo_test.go | sed -n 's#^// place in: *\([^ ]*\).*#\1#p'); DIR=${DIR%/}
[ -z "$DIR" ] && { echo "no place-in line"; exit 2; }
RUN=$(grep -o '^func Test[A-Za-z0-9_]*' $SRC/demo_test.go | sed 's/func //' | paste -sd'|')
RACE=""; grep -q -- "-race" $SRC/meta.json && RACE="-race"
DEMO="go test -vet=off -count=1 $RACE -timeout 120s -run ^($RUN)\$ ./$DIR/"
git apply $SRC/patch.diff || { echo "patch does not apply"; exit 2; }
SUITE_OK=true
go test -vet=off -count=1 -timeout 600s ./... > $WT/.suite.log 2>&1 || { SUITE_OK=false; }
if [ $SUITE_OK = false ]; then  # flaky suite: retry once
  go test -vet=off -count=1 -timeout 600s ./... > $WT/.suite.log 2>&1 && SUITE_OK=true
fi
cp $SRC/demo_test.go $DIR/zz_seed_demo_test.go
DEMO_FAILS=false
$DEMO > $WT/.demo_patched.log 2>&1 || DEMO_FAILS=true
rm -f $DIR/zz_seed_demo_test.go
git checkout -q -- . && git clean -qfd -e '.*.log'
cp $SRC/demo_test.go $DIR/zz_seed_demo_test.go
DEMO_PASSES=false
$DEMO > $WT/.demo_clean.log 2>&1 && DEMO_PASSES=true
rm -f $DIR/zz_seed_demo_test.go
echo "$ID suite_passes_with_patch=$SUITE_OK demo_fails_with_patch=$DEMO_FAILS demo_passes_without_patch=$DEMO_PASSES"
if [ $SUITE_OK = true ] && [ $DEMO_FAILS = true ] && [ $DEMO_PASSES = true ]; then
  mkdir -p /verif/seeded/$ID
  cp $SRC/patch.diff /verif/seeded/$ID/patch.diff
  cp $SRC/demo_test.go /verif/seeded/$ID/demo_test.go
  python3 - "$SRC/meta.json" "/verif/seeded/$ID/meta.json" "$DEMO" "$DIR" <<'PY'
import json,sys
m=json.load(open(sys.argv[1]))
out={"property":m.get("property"),"summary":m.get("summary"),"needs":m.get("needs"),"files":m.get("files"),
 "demo_dir":sys.argv[4],"confirmed_by_builder":{"how":"scratch git worktree of /repo HEAD under /tmp: git apply patch.diff; go test -vet=off -count=1 ./... (whole suite); demo copied into demo_dir as zz_seed_demo_test.go and run; git checkout; demo run again on the clean tree; worktree removed",
 "demo_cmd":sys.argv[3],"suite_passes_with_patch":True,"demo_fails_with_patch":True,"demo_passes_without_patch":True},
 "origin":"written by an independent sub-agent that saw only the property text and its own worktree"}
json.dump(out,open(sys.argv[2],'w'),indent=1)
PY
else
  tail -5 $WT/.suite.log $WT/.demo_patched.log $WT/.demo_clean.log 2>/dev/null | cut -c1-200
fi
