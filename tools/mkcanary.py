#!/usr/bin/env python3
"""usage: mkcanary.py <seed id> <contract file rel. to /repo> '<//@ func header line>' '<clause line>' '<summary>' <obligation label>
Creates /verif/seeded/<id>/ with a patch that ADDS a false clause to a contract (engine canary)."""
import sys, os, json, subprocess, tempfile, shutil
sid, rel, header, clause, summary, label = sys.argv[1:7]
src = '/repo/' + rel
s = open(src).read()
h = header + '\n'
assert h in s, header
t = s.replace(h, h + clause + '\n', 1)
d = tempfile.mkdtemp()
a = os.path.join(d, 'a', rel); b = os.path.join(d, 'b', rel)
os.makedirs(os.path.dirname(a)); os.makedirs(os.path.dirname(b))
open(a, 'w').write(s); open(b, 'w').write(t)
p = subprocess.run(['diff', '-u', 'a/' + rel, 'b/' + rel], cwd=d, capture_output=True, text=True).stdout
shutil.rmtree(d)
out = '/verif/seeded/' + sid
os.makedirs(out, exist_ok=True)
open(out + '/patch.diff', 'w').write(p)
prop = sid.split('-')[0]
fn = header.replace('//@ func ', '').strip()
json.dump({"property": prop + " (engine canary, not a change of the library)", "summary": summary,
           "needs": "nothing: a contract-level must-fail case", "files": [rel],
           "origin": "written by the builder as an engine soundness canary",
           "caught_by": {"checks": [prop], "failed_obligations": [label], "how": "tools/seed_matrix.sh " + sid}},
          open(out + '/meta.json', 'w'), indent=1)
print(out)
