#!/bin/bash
# usage: tools/mut.sh <patch.diff | -e 'sed-expr' file> -- <gcv args...>
# Applies a change to a scratch copy of /repo's working tree (or of the snapshot named by
# MUT_SRC), outside /repo and /verif, runs gcv against it (GCV_REPO), removes the copy.
# GCV_NOEVIDENCE=1: scratch runs never touch /verif/evidence. MUT_VERIF: a snapshot of /verif's
# baseline / known-findings / residue files to run against (so /verif may change meanwhile).
set -u
SCR=$(mktemp -d /tmp/gcvmut.XXXXXX)
trap 'rm -rf "$SCR"' EXIT
rsync -a --exclude .git "${MUT_SRC:-/repo}/" "$SCR/"
if [ "$1" = "-e" ]; then
  sed -i "$2" "$SCR/$3" || exit 3
  shift 3
else
  (cd "$SCR" && patch -s -p1 < "$1") || { echo "patch failed"; exit 3; }
  shift
fi
[ "$1" = "--" ] && shift
GCV_REPO="$SCR" GCV_VERIF="${MUT_VERIF:-/verif}" GCV_NOEVIDENCE=1 "${GCV_BIN:-/verif/bin/gcv}" "$@"
