#!/usr/bin/env python3
"""Regenerates MANIFEST.json from tools/manifest_props.json (per-property texts)."""
import json, subprocess, sys
props = json.load(open('/verif/tools/manifest_props.json'))
hooks_commits = subprocess.run(['git','-C','/repo','log','--format=%H %s'],capture_output=True,text=True).stdout.strip().split('\n')
src = [l.split()[0] for l in hooks_commits if ' verif hooks' in l or ' verif: ' in l]
checks = []
na = []
for pid in sorted(props):
    p = props[pid]
    if p.get('not_applicable'):
        na.append({"property_id": pid, "reason": p['not_applicable']})
        continue
    checks.append({
        "property_id": pid,
        "quick_cmd": f"bin/gcv check {pid} --tier quick",
        "thorough_cmd": f"bin/gcv check {pid} --tier thorough",
        "evidence_file": f"evidence/{pid}.json",
        "replay_cmd_template": "bin/gcv replay {path}",
        "engine": "gcv",
        "level_claimed": {"category": "proof", "text": p['claim'], "design_ref": p.get('design_ref', 'DESIGN.md §6 ' + pid)},
        "level_note": p['note'],
        "technique": p.get('technique', "contract-based deductive verification: weakest-precondition style symbolic execution of the go/ssa form of the real functions against //@ contracts, obligations discharged by z3 5.1 / cvc5 1.0.3 / z3 4.8.12"),
    })
m = {
 "version": 1,
 "setup_cmd": "cd /verif/gcv && GOFLAGS=-mod=vendor GOPROXY=off GOSUMDB=off GOTOOLCHAIN=local go build -o /verif/bin/gcv ./cmd/gcv",
 "hooks": {
   "guard": "verif",
   "enable": "contract files /repo/<pkg>/zz_contracts_verif.go (//go:build verif, comments only) are read by gcv; gcv loads packages with -tags=verif",
   "baseline_off_cmd": "cd /repo && GOFLAGS=-mod=mod GOPROXY=off GOSUMDB=off GOTOOLCHAIN=local go test -vet=off -count=1 -timeout 25m ./...",
   "source_commits": src,
   "add_only": True,
 },
 "engines": [{"name": "gcv", "path": "gcv/cmd/gcv", "serves_properties": [c['property_id'] for c in checks],
              "kind_free_text": "home-built VC generator for Go: go/packages+go/ssa front end, symbolic executor with Burstall-Bornat heap, extended-real float model, monitor rule for locks, rely-havoc for atomic cells, loop-invariant cuts, modular contracts, two-run relational products; SMT back ends z3-new 5.1.0, cvc5 1.0.3, z3 4.8.12 raced per obligation"}],
 "checks": checks,
 "not_applicable": na,
 "notes": "See DESIGN.md. Known genuine defects that are recorded rather than repaired are in known_findings.json; repaired ones are the fix: commits in /repo listed there as fixed:.",
}
json.dump(m, open('/verif/MANIFEST.json','w'), indent=1)
print(len(checks), 'checks,', len(na), 'not applicable')
