package main

import (
	"flag"
	"fmt"
	"os"
	"path/filepath"
	"sort"
	"strings"
)

func usage() {
	fmt.Fprintln(os.Stderr, `usage:
  gcv check <Cxx> [--tier quick|thorough]     decide one property (exit 0 held, 1 violation)
  gcv func <name> [--prop Cxx] [--dump]       verify one function (debug)
  gcv baseline                                rewrite baseline_obligations.json from the current tree
  gcv list                                    list functions under contract per property
  gcv replay <path>                           re-run a recorded replay`)
	os.Exit(2)
}

var verifDir = "/verif"
var repoDir = "/repo"

func main() {
	if len(os.Args) < 2 {
		usage()
	}
	if os.Getenv("GCV_COVER") != "" {
		coverClauses = true
	}
	if d := os.Getenv("GCV_VERIF"); d != "" {
		verifDir = d
	}
	if d := os.Getenv("GCV_REPO"); d != "" {
		repoDir = d
	}
	cmd := os.Args[1]
	fs := flag.NewFlagSet(cmd, flag.ExitOnError)
	tier := fs.String("tier", "quick", "quick|thorough")
	prop := fs.String("prop", "", "property filter")
	dump := fs.Bool("dump", false, "dump obligations")
	keep := fs.Bool("keep", false, "keep SMT files")
	var pos []string
	rest := os.Args[2:]
	for len(rest) > 0 && !strings.HasPrefix(rest[0], "-") {
		pos = append(pos, rest[0])
		rest = rest[1:]
	}
	fs.Parse(rest)
	pos = append(pos, fs.Args()...)
	if t := os.Getenv("VERIF_TIER"); t != "" && cmd == "check" {
		// explicit flag wins
		set := false
		fs.Visit(func(f *flag.Flag) {
			if f.Name == "tier" {
				set = true
			}
		})
		if !set {
			*tier = t
		}
	}
	switch cmd {
	case "check":
		if len(pos) != 1 {
			usage()
		}
		os.Exit(cmdCheck(pos[0], *tier, *keep))
	case "func":
		if len(pos) != 1 {
			usage()
		}
		os.Exit(cmdFunc(pos[0], *prop, *dump, *keep))
	case "baseline":
		os.Exit(cmdBaseline(pos...))
	case "params":
		p := mustLoad()
		os.Exit(writeJSON(filepath.Join(verifDir, "baseline_params.json"), baselineParamsNow(p)))
	case "list":
		os.Exit(cmdList())
	case "audit":
		os.Exit(cmdAudit())
	case "conform":
		os.Exit(cmdConform(pos))
	case "validate":
		os.Exit(cmdValidate(pos))
	case "replay":
		if len(pos) != 1 {
			usage()
		}
		os.Exit(cmdReplay(pos[0]))
	default:
		usage()
	}
}

func mustLoad() *Prog {
	p, err := loadProg(repoDir, repoPkgDirs)
	if err != nil {
		fmt.Fprintln(os.Stderr, "gcv: cannot load /repo:", err)
		os.Exit(2)
	}
	return p
}

func cmdList() int {
	p := mustLoad()
	props := map[string][]string{}
	for name, f := range p.specs.Funcs {
		seen := map[string]bool{}
		add := func(ps []string) {
			for _, q := range ps {
				if !seen[q] {
					seen[q] = true
					props[q] = append(props[q], name)
				}
			}
		}
		for _, c := range f.Ensures {
			add(c.Props)
		}
		for _, c := range f.Maintains {
			add(c.Props)
		}
		for _, c := range f.Establishes {
			add(c.Props)
		}
		for _, c := range f.Relational {
			add(c.Props)
		}
		add(f.Safety)
		add(f.Owns)
	}
	var ks []string
	for k := range props {
		ks = append(ks, k)
	}
	sort.Strings(ks)
	for _, k := range ks {
		sort.Strings(props[k])
		fmt.Printf("%s (%d functions)\n", k, len(props[k]))
		for _, f := range props[k] {
			fmt.Println("   ", f)
		}
	}
	return 0
}

func cmdFunc(name, prop string, dump, keep bool) int {
	p := mustLoad()
	isLemma := false
	for _, lm := range p.specs.Lemmas {
		if lm.Name == name {
			isLemma = true
		}
	}
	if name == "tables" {
		isLemma = true
	}
	if _, ok := p.fns[name]; !ok && !isLemma {
		fmt.Println("no such function; candidates:")
		for n := range p.fns {
			if strings.Contains(n, name) {
				fmt.Println("  ", n)
			}
		}
		return 2
	}
	pr := runProperty(p, prop, "quick", name)
	wd := newWorkDir()
	if !keep {
		defer wd.cleanup()
	} else {
		fmt.Println("work dir:", wd.dir)
	}
	solveAll(pr, wd, 10, false)
	res := pr.FuncResults[name]
	fmt.Printf("%s: paths=%d return-paths=%d unsupported=%q\n", name, res.Paths, res.RetPaths, res.Unsupported)
	for _, o := range pr.Obls {
		fmt.Printf("  %-70s path=%-3d %-8s %-7s %.2fs\n", o.Name, o.PathID, o.Result.Status, o.Result.Solver, o.Result.Seconds)
		if dump || (o.Result.Status == "sat" && o.Kind != "vacuity") {
			fmt.Println("     goal:", o.Goal)
			if o.Result.Status == "sat" {
				fmt.Println("     inputs:", modelInputs(o))
			}
		}
	}
	for _, n := range res.Notes {
		fmt.Println("  note:", n)
	}
	return 0
}

func cmdBaseline(only ...string) int {
	p := mustLoad()
	bl := Baseline{}
	if len(only) > 0 {
		bl = loadBaseline(verifDir)
	}
	for _, prop := range allProps(p) {
		if len(only) > 0 && !contains(only, prop) {
			continue
		}
		delete(bl, prop)
		os.Setenv("GCV_NORETRY", "1") // admission is strict: 10 s, no second chance
		pr := runProperty(p, prop, "quick", "")
		wd := newWorkDir()
		solveAll(pr, wd, 10, false)
		wd.cleanup()
		for _, r := range aggregate(pr) {
			if r.Kind == "vacuity" {
				continue
			}
			if r.Status == "discharged" {
				bl[prop] = append(bl[prop], r.Name)
			} else {
				fmt.Printf("baseline: %s %s is %s (not admitted)\n", prop, r.Name, r.Status)
			}
		}
		sort.Strings(bl[prop])
	}
	// parameter names at baseline time: contracts name parameters; if a parameter is renamed
	// later the old name is kept as an alias (a harmless edit must not raise an alarm)
	writeJSON(filepath.Join(verifDir, "baseline_params.json"), baselineParamsNow(p))
	return writeJSON(filepath.Join(verifDir, "baseline_obligations.json"), bl)
}

func allProps(p *Prog) []string {
	seen := map[string]bool{}
	for _, f := range p.specs.Funcs {
		for _, c := range f.Ensures {
			for _, q := range c.Props {
				seen[q] = true
			}
		}
		for _, c := range f.Maintains {
			for _, q := range c.Props {
				seen[q] = true
			}
		}
		for _, c := range f.Establishes {
			for _, q := range c.Props {
				seen[q] = true
			}
		}
		for _, c := range f.Relational {
			for _, q := range c.Props {
				seen[q] = true
			}
		}
		for _, q := range f.Safety {
			seen[q] = true
		}
		for _, q := range f.Owns {
			seen[q] = true
		}
	}
	var out []string
	for k := range seen {
		out = append(out, k)
	}
	sort.Strings(out)
	return out
}

// baselineParamsNow: what is recorded about names at acceptance time - parameter names of every
// contracted function, captured-variable names of contracted closures ("<fn>#free") and the list of
// all named functions ("#all", so that new code can be told from old).
func baselineParamsNow(p *Prog) map[string][]string {
		params := map[string][]string{}
		for name := range p.specs.Funcs {
			if fn, ok := p.fns[name]; ok {
				var ns []string
				for _, prm := range fn.Params {
					ns = append(ns, prm.Name())
				}
				params[name] = ns
				if len(fn.FreeVars) > 0 {
					var fs []string
					for _, fv := range fn.FreeVars {
						fs = append(fs, fv.Name())
					}
					params[name+"#free"] = fs
				}
			}
		}
		// every named function of the repository at acceptance time: a function that is not in this
		// list is new code (e.g. an extracted helper)
		var all []string
		for name, fn := range p.fns {
			if fn.Parent() == nil && fn.Synthetic == "" {
				all = append(all, name)
			}
		}
		sort.Strings(all)
		params["#all"] = all
	return params
}
