package main

import (
	"fmt"
	"go/types"
	"sort"
	"strings"
)

// invEstablishers: for every type that carries invariant clauses, the contracted functions that
// establish them (the induction base of "for all reachable states"): functions with an
// `establishes` clause or an `inv(result)`-style postcondition whose result is a (pointer to a)
// value of that type. A type without an establisher has its invariant only assumed.
func invEstablishers(p *Prog) map[string][]string {
	out := map[string][]string{}
	for tn, ts := range p.specs.Types {
		if len(ts.Invs) > 0 {
			out[tn] = nil
		}
	}
	for name, fs := range p.specs.Funcs {
		if fs.Trusted {
			continue
		}
		est := len(fs.Establishes) > 0
		for _, c := range fs.Ensures {
			t := c.Text
			if strings.Contains(t, "inv(result)") || strings.Contains(t, "inv(ret0)") {
				est = true
			}
		}
		if !est {
			continue
		}
		fn := p.fns[name]
		if fn == nil {
			continue
		}
		rs := fn.Signature.Results()
		for i := 0; i < rs.Len(); i++ {
			t := rs.At(i).Type()
			if pt, ok := t.(*types.Pointer); ok {
				t = pt.Elem()
			}
			k := typeKey(t)
			if _, ok := out[k]; ok {
				out[k] = append(out[k], name)
			}
		}
	}
	// a sub-object whose invariant is a conjunct (inv(this.f)) of an established owner's invariant
	for tn, ts := range p.specs.Types {
		if ts.PartOf == "" || len(out[tn]) > 0 {
			continue
		}
		if owner, ok := p.specs.Types[ts.PartOf]; ok && len(out[ts.PartOf]) > 0 {
			for _, c := range owner.Invs {
				if strings.Contains(c.Text, "inv(") {
					out[tn] = append(out[tn], "(as part of "+ts.PartOf+")")
					break
				}
			}
		}
	}
	return out
}

func cmdAudit() int {
	p := mustLoad()
	m := invEstablishers(p)
	var ks []string
	for k := range m {
		ks = append(ks, k)
	}
	sort.Strings(ks)
	missing := 0
	for _, k := range ks {
		sort.Strings(m[k])
		if len(m[k]) == 0 {
			missing++
			fmt.Printf("%-55s NOT ESTABLISHED by any contracted constructor (invariant assumed)\n", k)
		} else {
			fmt.Printf("%-55s established by %s\n", k, strings.Join(m[k], ", "))
		}
	}
	fmt.Printf("%d types with invariants, %d without an establishing constructor\n", len(ks), missing)
	// per clause and property: some establisher must carry that property tag, otherwise the clause is
	// established only under another property's check
	gaps := 0
	for _, k := range ks {
		ts := p.specs.Types[k]
		have := map[string]bool{}
		for _, fn := range m[k] {
			fs := p.specs.Funcs[fn]
			if fs == nil {
				continue
			}
			for _, e := range fs.Establishes {
				for _, q := range e.Props {
					have[q] = true
				}
			}
			for _, c := range fs.Ensures {
				if strings.Contains(c.Text, "inv(result)") || strings.Contains(c.Text, "inv(ret0)") {
					for _, q := range c.Props {
						have[q] = true
					}
				}
			}
		}
		if ts.PartOf != "" {
			continue
		}
		for _, c := range ts.Invs {
			for _, q := range c.Props {
				if !have[q] {
					gaps++
					fmt.Printf("GAP %s inv %s is tagged %s but no establisher of the type carries %s\n", k, c.Label, q, q)
				}
			}
		}
	}
	fmt.Printf("%d clause/property gaps\n", gaps)
	// fields of declared types that no contract file classifies (frame and ownership checks treat
	// them as unknown-to-the-contracts)
	var tns []string
	for tn := range p.specs.Types {
		tns = append(tns, tn)
	}
	sort.Strings(tns)
	for _, tn := range tns {
		ts := p.specs.Types[tn]
		nt, ok := p.named[tn]
		if !ok {
			continue
		}
		st, ok := nt.Underlying().(*types.Struct)
		if !ok {
			continue
		}
		var un []string
		for i := 0; i < st.NumFields(); i++ {
			f := st.Field(i).Name()
			ft := st.Field(i).Type().String()
			if strings.HasPrefix(ft, "sync.") {
				continue
			}
			_, g := ts.Guarded[f]
			_, so := ts.SubObjects[f]
			_, dt := ts.DynType[f]
			if !g && !so && !dt && !ts.Atomic[f] && !ts.Immutable[f] && !ts.AtomicCell[f] && !ts.Confined[f] {
				un = append(un, f)
			}
		}
		if len(un) > 0 {
			fmt.Printf("UNCLASSIFIED %s: %s\n", tn, strings.Join(un, ", "))
		}
	}
	return 0
}
