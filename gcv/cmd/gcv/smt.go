package main

import (
	"bytes"
	"context"
	"fmt"
	"os"
	"os/exec"
	"path/filepath"
	"regexp"
	"strings"
	"sync"
	"time"
)

// SMT prelude: the float64 model of DESIGN §2.4 (extended reals, special values exact,
// rounding abstracted) plus integer helpers.
const smtPrelude = `(set-option :produce-models true)
(set-logic ALL)
(declare-datatypes ((F 0)) (((fin (fv Real)) (nan) (pinf) (ninf))))
(declare-sort Str 0)
(define-fun isfin ((a F)) Bool ((_ is fin) a))
(define-fun fneg ((a F)) F (ite ((_ is fin) a) (fin (- (fv a))) (ite (= a pinf) ninf (ite (= a ninf) pinf nan))))
(define-fun fadd ((a F) (b F)) F
  (ite (or (= a nan) (= b nan)) nan
  (ite (= a pinf) (ite (= b ninf) nan pinf)
  (ite (= a ninf) (ite (= b pinf) nan ninf)
  (ite (= b pinf) pinf
  (ite (= b ninf) ninf
  (fin (+ (fv a) (fv b)))))))))
(define-fun fsub ((a F) (b F)) F (fadd a (fneg b)))
(define-fun fsgnpos ((a F)) Bool (or (= a pinf) (and ((_ is fin) a) (>= (fv a) 0.0))))
(define-fun fiszero ((a F)) Bool (and ((_ is fin) a) (= (fv a) 0.0)))
(define-fun fisinf ((a F)) Bool (or (= a pinf) (= a ninf)))
(define-fun fmul ((a F) (b F)) F
  (ite (or (= a nan) (= b nan)) nan
  (ite (and ((_ is fin) a) ((_ is fin) b)) (fin (* (fv a) (fv b)))
  (ite (or (fiszero a) (fiszero b)) nan
  (ite (= (fsgnpos a) (fsgnpos b)) pinf ninf)))))
(define-fun fdiv ((a F) (b F)) F
  (ite (or (= a nan) (= b nan)) nan
  (ite (and (fisinf a) (fisinf b)) nan
  (ite (fisinf a) (ite (= (fsgnpos a) (fsgnpos b)) pinf ninf)
  (ite (fisinf b) (fin 0.0)
  (ite (= (fv b) 0.0)
       (ite (= (fv a) 0.0) nan (ite (> (fv a) 0.0) pinf ninf))
       (fin (/ (fv a) (fv b)))))))))
(define-fun flt ((a F) (b F)) Bool
  (ite (or (= a nan) (= b nan)) false
  (ite (= a b) false
  (ite (= a ninf) true
  (ite (= b pinf) true
  (ite (or (= a pinf) (= b ninf)) false
  (< (fv a) (fv b))))))))
(define-fun fle ((a F) (b F)) Bool
  (ite (or (= a nan) (= b nan)) false (or (= a b) (flt a b))))
(define-fun feq ((a F) (b F)) Bool
  (ite (or (= a nan) (= b nan)) false (= a b)))
(define-fun fmax ((a F) (b F)) F
  (ite (or (= a pinf) (= b pinf)) pinf
  (ite (or (= a nan) (= b nan)) nan
  (ite (flt a b) b a))))
(define-fun fmin ((a F) (b F)) F
  (ite (or (= a ninf) (= b ninf)) ninf
  (ite (or (= a nan) (= b nan)) nan
  (ite (flt a b) a b))))
(define-fun rfloor ((x Real)) Real (to_real (to_int x)))
(define-fun rceil ((x Real)) Real (- (to_real (to_int (- x)))))
(define-fun rtrunc ((x Real)) Real (ite (>= x 0.0) (rfloor x) (rceil x)))
(define-fun fceil ((a F)) F (ite ((_ is fin) a) (fin (rceil (fv a))) a))
(define-fun ffloor ((a F)) F (ite ((_ is fin) a) (fin (rfloor (fv a))) a))
(define-fun ftrunc ((a F)) F (ite ((_ is fin) a) (fin (rtrunc (fv a))) a))
(define-fun f2i ((a F)) Int (ite ((_ is fin) a) (ite (>= (fv a) 0.0) (to_int (fv a)) (- (to_int (- (fv a))))) (- 9223372036854775808)))
(define-fun i2f ((i Int)) F (fin (to_real i)))
(define-fun wrap32 ((x Int)) Int (- (mod (+ x 2147483648) 4294967296) 2147483648))
(define-fun wrap64 ((x Int)) Int (- (mod (+ x 9223372036854775808) 18446744073709551616) 9223372036854775808))
(define-fun wrapu64 ((x Int)) Int (mod x 18446744073709551616))
(define-fun wrapu32 ((x Int)) Int (mod x 4294967296))
(define-fun wrapu8 ((x Int)) Int (mod x 256))
(define-fun imax ((a Int) (b Int)) Int (ite (>= a b) a b))
(define-fun imin ((a Int) (b Int)) Int (ite (<= a b) a b))
(define-fun tdiv ((a Int) (b Int)) Int (ite (>= a 0) (ite (> b 0) (div a b) (- (div a (- b)))) (ite (> b 0) (- (div (- a) b)) (div (- a) (- b)))))
(define-fun tmod ((a Int) (b Int)) Int (- a (* b (tdiv a b))))
(declare-fun u_sqrt (Real) Real)
(declare-fun u_log10 (Real) Real)
(define-fun fsqrt ((a F)) F
  (ite (= a nan) nan (ite (= a pinf) pinf (ite (= a ninf) nan
  (ite (< (fv a) 0.0) nan (fin (u_sqrt (fv a))))))))
(define-fun flog10 ((a F)) F
  (ite (= a nan) nan (ite (= a pinf) pinf (ite (= a ninf) nan
  (ite (< (fv a) 0.0) nan (ite (= (fv a) 0.0) ninf (fin (u_log10 (fv a)))))))))
`

// Axioms for the uninterpreted math functions (A6). Added only to obligations that mention them.
const smtSqrtAxioms = `(assert (forall ((x Real)) (! (=> (>= x 0.0) (and (>= (to_int (u_sqrt x)) 0) (<= (to_real (* (to_int (u_sqrt x)) (to_int (u_sqrt x)))) x) (> (to_real (* (+ (to_int (u_sqrt x)) 1) (+ (to_int (u_sqrt x)) 1))) x) (<= (to_real (to_int (u_sqrt x))) (ite (>= x 1.0) x 1.0)))) :pattern ((to_int (u_sqrt x))))))
(assert (forall ((x Real)) (! (=> (>= x 0.0) (and (>= (u_sqrt x) 0.0) (= (* (u_sqrt x) (u_sqrt x)) x))) :pattern ((u_sqrt x)))))
(assert (forall ((x Real) (y Real)) (! (=> (and (>= x 0.0) (<= x y)) (<= (u_sqrt x) (u_sqrt y))) :pattern ((u_sqrt x) (u_sqrt y)))))
`
const smtLog10Axioms = `(assert (forall ((x Real) (y Real)) (! (=> (and (> x 0.0) (<= x y)) (<= (u_log10 x) (u_log10 y))) :pattern ((u_log10 x) (u_log10 y)))))
(assert (= (u_log10 1.0) 0.0))
(assert (= (u_log10 10.0) 1.0))
(assert (= (u_log10 100.0) 2.0))
(assert (= (u_log10 1000.0) 3.0))
(assert (forall ((x Real)) (! (=> (> x 0.0) (< (u_log10 x) x)) :pattern ((u_log10 x)))))
(assert (forall ((x Real)) (! (and (=> (>= x 1.0) (>= (u_log10 x) 0.0)) (=> (>= x 10.0) (>= (u_log10 x) 1.0)) (=> (>= x 100.0) (>= (u_log10 x) 2.0)) (=> (>= x 1000.0) (>= (u_log10 x) 3.0)) (=> (and (> x 0.0) (<= x 10000000000000000000.0)) (<= (u_log10 x) 19.0))) :pattern ((u_log10 x)))))
`

type SolverResult struct {
	Status  string // unsat | sat | unknown
	Solver  string
	Seconds float64
	Model   string
	Raw     string
}

type solverSpec struct {
	name string
	args []string
}

var solvers = []solverSpec{
	{"z3-new", []string{"z3-new", "-smt2"}},
	{"cvc5", []string{"cvc5", "--lang=smt2", "--produce-models"}},
	{"z3", []string{"z3", "-smt2"}},
	{"z3-new-nogb", []string{"z3-new", "-smt2", "smt.arith.nl.grobner=false"}},
}

var solverSem = make(chan struct{}, 16)

func runOneSolver(ctx context.Context, sp solverSpec, file string, timeoutS int) SolverResult {
	start := time.Now()
	args := append([]string{}, sp.args[1:]...)
	switch sp.name {
	case "z3", "z3-new", "z3-new-nogb":
		args = append(args, fmt.Sprintf("-T:%d", timeoutS))
	case "cvc5":
		args = append(args, fmt.Sprintf("--tlimit=%d", timeoutS*1000))
	}
	args = append(args, file)
	cmd := exec.CommandContext(ctx, sp.args[0], args...)
	var out bytes.Buffer
	cmd.Stdout = &out
	cmd.Stderr = &out
	_ = cmd.Run()
	s := out.String()
	first := strings.TrimSpace(strings.SplitN(s, "\n", 2)[0])
	res := SolverResult{Solver: sp.name, Seconds: time.Since(start).Seconds(), Raw: s}
	switch first {
	case "unsat":
		res.Status = "unsat"
	case "sat":
		res.Status = "sat"
		if i := strings.Index(s, "\n"); i >= 0 {
			res.Model = s[i+1:]
		}
	default:
		res.Status = "unknown"
	}
	return res
}

// solvePortfolio races the solvers on one SMT file; the first definite answer wins.
// When agree is true every solver is run to completion (or timeout) and their answers
// are collected (thorough tier).
func solvePortfolio(file string, timeoutS int, agree bool) (SolverResult, []SolverResult) {
	return solvePortfolioCtx(context.Background(), file, timeoutS, agree)
}

func solvePortfolioCtx(parent context.Context, file string, timeoutS int, agree bool) (SolverResult, []SolverResult) {
	ctx, cancel := context.WithTimeout(parent, time.Duration(timeoutS+2)*time.Second)
	defer cancel()
	ch := make(chan SolverResult, len(solvers))
	var wg sync.WaitGroup
	for _, sp := range solvers {
		wg.Add(1)
		go func(sp solverSpec) {
			defer wg.Done()
			ch <- runOneSolver(ctx, sp, file, timeoutS)
		}(sp)
	}
	go func() { wg.Wait(); close(ch) }()
	var all []SolverResult
	best := SolverResult{Status: "unknown"}
	definite := 0
	for r := range ch {
		all = append(all, r)
		if r.Status != "unknown" {
			definite++
		}
		if best.Status == "unknown" && r.Status != "unknown" {
			best = r
			if !agree {
				cancel()
			} else {
				// agreement mode: give the other solvers a grace period to confirm, not the whole
				// timeout (hard nonlinear goals are often decided by one configuration only)
				time.AfterFunc(2*time.Second, cancel)
			}
		}
		if agree && definite >= 2 {
			cancel() // two independent definite answers are enough for the agreement check
		}
	}
	if best.Status == "unknown" && len(all) > 0 {
		best = all[0]
		best.Status = "unknown"
	}
	return best, all
}

type workDir struct {
	dir string
	mu  sync.Mutex
	n   int
}

func newWorkDir() *workDir {
	base := os.Getenv("TMPDIR")
	if base == "" {
		base = "/tmp"
	}
	d, err := os.MkdirTemp(base, "gcv-")
	if err != nil {
		panic(err)
	}
	return &workDir{dir: d}
}

func (w *workDir) cleanup() { os.RemoveAll(w.dir) }

var unsafeName = regexp.MustCompile(`[^A-Za-z0-9_.-]+`)

func (w *workDir) file(name string) string {
	w.mu.Lock()
	w.n++
	n := w.n
	w.mu.Unlock()
	return filepath.Join(w.dir, fmt.Sprintf("%04d_%s.smt2", n, unsafeName.ReplaceAllString(name, "_")))
}

// --- small term helpers -------------------------------------------------------------

func sAnd(xs ...string) string {
	var ys []string
	for _, x := range xs {
		if x == "true" || x == "" {
			continue
		}
		if x == "false" {
			return "false"
		}
		ys = append(ys, x)
	}
	switch len(ys) {
	case 0:
		return "true"
	case 1:
		return ys[0]
	}
	return "(and " + strings.Join(ys, " ") + ")"
}

func sOr(xs ...string) string {
	var ys []string
	for _, x := range xs {
		if x == "false" || x == "" {
			continue
		}
		if x == "true" {
			return "true"
		}
		ys = append(ys, x)
	}
	switch len(ys) {
	case 0:
		return "false"
	case 1:
		return ys[0]
	}
	return "(or " + strings.Join(ys, " ") + ")"
}

func sNot(x string) string {
	switch x {
	case "true":
		return "false"
	case "false":
		return "true"
	}
	if strings.HasPrefix(x, "(not ") && strings.HasSuffix(x, ")") {
		inner := x[5 : len(x)-1]
		if balanced(inner) {
			return inner
		}
	}
	return "(not " + x + ")"
}

func balanced(s string) bool {
	d := 0
	for i, c := range s {
		if c == '(' {
			d++
		} else if c == ')' {
			d--
			if d == 0 && i != len(s)-1 {
				return false
			}
			if d < 0 {
				return false
			}
		} else if d == 0 && (c == ' ') {
			return false
		}
	}
	return d == 0
}

func sImp(a, b string) string {
	if a == "true" {
		return b
	}
	if a == "false" || b == "true" {
		return "true"
	}
	return "(=> " + a + " " + b + ")"
}

func sIte(c, a, b string) string {
	if c == "true" {
		return a
	}
	if c == "false" {
		return b
	}
	if a == b {
		return a
	}
	return "(ite " + c + " " + a + " " + b + ")"
}

func sEq(a, b string) string {
	if a == b {
		return "true"
	}
	return "(= " + a + " " + b + ")"
}

func sInt(n int64) string {
	if n < 0 {
		return fmt.Sprintf("(- %d)", -n)
	}
	return fmt.Sprintf("%d", n)
}
