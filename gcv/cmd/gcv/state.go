package main

import (
	"fmt"
	"go/types"
	"sort"
	"strings"

	"golang.org/x/tools/go/ssa"
)

// Decls is the declaration table shared by all paths of one function run
// (forked paths must share one table: lesson from the spike).
type Decls struct {
	order []string
	sorts map[string]string
	n     int
	strs  map[string]string // string constant -> symbol
	funs  []string          // uninterpreted function declarations
	funSeen map[string]bool
}

func newDecls() *Decls {
	return &Decls{sorts: map[string]string{}, strs: map[string]string{}, funSeen: map[string]bool{}}
}

func (d *Decls) fresh(prefix, sort string) string {
	d.n++
	name := fmt.Sprintf("%s!%d", sanitize(prefix), d.n)
	d.declare(name, sort)
	return name
}

func (d *Decls) declare(name, sort string) {
	if _, ok := d.sorts[name]; ok {
		return
	}
	d.sorts[name] = sort
	d.order = append(d.order, name)
}

func (d *Decls) declareFun(name, sig string) {
	if d.funSeen[name] {
		return
	}
	d.funSeen[name] = true
	d.funs = append(d.funs, "(declare-fun "+name+" "+sig+")")
}

func (d *Decls) strConst(s string) string {
	if s == "" {
		return "str_empty"
	}
	if n, ok := d.strs[s]; ok {
		return n
	}
	n := fmt.Sprintf("str!%d_%s", len(d.strs), sanitize(s))
	d.strs[s] = n
	return n
}

func sanitize(s string) string {
	var b strings.Builder
	for _, c := range s {
		switch {
		case c >= 'a' && c <= 'z', c >= 'A' && c <= 'Z', c >= '0' && c <= '9', c == '_', c == '.':
			b.WriteRune(c)
		default:
			b.WriteByte('_')
		}
	}
	return b.String()
}

func (d *Decls) text() string {
	var b strings.Builder
	b.WriteString("(declare-const str_empty Str)\n")
	names := make([]string, 0, len(d.strs))
	for _, n := range d.strs {
		names = append(names, n)
	}
	sort.Strings(names)
	for _, n := range names {
		b.WriteString("(declare-const " + quoteSym(n) + " Str)\n")
	}
	if len(names) > 0 {
		b.WriteString("(assert (distinct str_empty")
		for _, n := range names {
			b.WriteString(" " + quoteSym(n))
		}
		b.WriteString("))\n")
	}
	for _, f := range d.funs {
		b.WriteString(f + "\n")
	}
	for _, n := range d.order {
		b.WriteString("(declare-const " + quoteSym(n) + " " + d.sorts[n] + ")\n")
	}
	return b.String()
}

func quoteSym(s string) string { return s }

type Event struct {
	Name string // e.g. "core.MetricSampleListener.AddSample", "(*limit.AIMDLimit).notifyListeners"
	Recv *Val
	Args []Val
	Res  []Val
	Pos  string
	Held []string // locks held when the call happened
	Iter int      // loop-iteration epoch (incremented at every loop-head cut)
}

type mapIter struct {
	MapRef  string
	Visited string // term of sort (Array K Bool)
	KeyT    types.Type
	ValT    types.Type
	MapT    *types.Map
}

type heldLock struct {
	Write bool
}

type deferred struct {
	call *ssa.CallCommon
	args []Val
	fn   Val
	pos  string
}

// Frame is one activation record (the function under proof or an inlined callee).
type Frame struct {
	fn     *ssa.Function
	block  *ssa.BasicBlock
	idx    int
	prev   *ssa.BasicBlock
	regs   map[ssa.Value]Val
	locals map[*ssa.Alloc]Val
	defers []deferred
	entered bool
	retTo  ssa.Value // register of the caller that receives the result (nil: discarded)
	retAdvance bool  // advance the caller's pc on return
	inlineEvent string
}

func (f *Frame) clone() *Frame {
	n := *f
	n.regs = make(map[ssa.Value]Val, len(f.regs))
	for k, v := range f.regs {
		n.regs[k] = v
	}
	n.locals = make(map[*ssa.Alloc]Val, len(f.locals))
	for k, v := range f.locals {
		n.locals[k] = v
	}
	n.defers = append([]deferred(nil), f.defers...)
	return &n
}

func (f *Frame) jump(to *ssa.BasicBlock) {
	f.prev = f.block
	f.block = to
	f.idx = 0
	f.entered = false
}

// State is one symbolic path.
type State struct {
	pc      []string
	heap    map[string]string // array name -> current term
	frames  []*Frame
	held    map[string]heldLock
	lockedOnce map[string]bool
	events  []Event
	fresh   []string // refs allocated on this path
	opaqueEvents map[string]bool
	dead    bool
	tainted string // set when an assumed callee clause could not be evaluated on this path
	trace   []string
	run     int
	cache   map[string]map[string]string
	known   map[string]string
	nilChecked map[string]bool
	ranged  map[string]bool
	cellOrigin map[string]string
	ownedBy map[string]string // sub-object reference -> lock key of its owner
	fin     map[string]string // float term -> real term, for terms known finite on this path
	nonzero map[string]bool   // real terms known to be non-zero
	finCount *int
	iterEpoch int
	declare func(name, sort string)
}

func (s *State) top() *Frame { return s.frames[len(s.frames)-1] }

func (s *State) clone() *State {
	n := &State{
		pc:     append([]string(nil), s.pc...),
		heap:   make(map[string]string, len(s.heap)),
		held:   make(map[string]heldLock, len(s.held)),
		lockedOnce: make(map[string]bool, len(s.lockedOnce)),
		events: append([]Event(nil), s.events...),
		fresh:  append([]string(nil), s.fresh...),
		trace:  append([]string(nil), s.trace...),
		run:    s.run,
		iterEpoch: s.iterEpoch,
		tainted: s.tainted,
	}
	for _, f := range s.frames {
		n.frames = append(n.frames, f.clone())
	}
	for k, v := range s.heap {
		n.heap[k] = v
	}
	for k, v := range s.held {
		n.held[k] = v
	}
	for k, v := range s.lockedOnce {
		n.lockedOnce[k] = v
	}
	if s.known != nil {
		n.known = make(map[string]string, len(s.known))
		for k, v := range s.known {
			n.known[k] = v
		}
	}
	if s.ranged != nil {
		n.ranged = make(map[string]bool, len(s.ranged))
		for k := range s.ranged {
			n.ranged[k] = true
		}
	}
	if s.fin != nil {
		n.fin = make(map[string]string, len(s.fin))
		for k, v := range s.fin {
			n.fin[k] = v
		}
	}
	if s.nonzero != nil {
		n.nonzero = make(map[string]bool, len(s.nonzero))
		for k := range s.nonzero {
			n.nonzero[k] = true
		}
	}
	n.finCount = s.finCount
	n.declare = s.declare
	if s.ownedBy != nil {
		n.ownedBy = make(map[string]string, len(s.ownedBy))
		for k, v := range s.ownedBy {
			n.ownedBy[k] = v
		}
	}
	if s.cellOrigin != nil {
		n.cellOrigin = make(map[string]string, len(s.cellOrigin))
		for k, v := range s.cellOrigin {
			n.cellOrigin[k] = v
		}
	}
	if s.nilChecked != nil {
		n.nilChecked = make(map[string]bool, len(s.nilChecked))
		for k := range s.nilChecked {
			n.nilChecked[k] = true
		}
	}
	if s.cache != nil {
		n.cache = make(map[string]map[string]string, len(s.cache))
		for k, v := range s.cache {
			m := make(map[string]string, len(v))
			for a, b := range v {
				m[a] = b
			}
			n.cache[k] = m
		}
	}
	if s.opaqueEvents != nil {
		n.opaqueEvents = map[string]bool{}
		for k := range s.opaqueEvents {
			n.opaqueEvents[k] = true
		}
	}
	return n
}

func (s *State) assume(f string) {
	if f == "true" || f == "" {
		return
	}
	s.pc = append(s.pc, f)
	s.learn(f)
}

// learn records equalities "term = <literal id>" from assumed facts so that calls through
// function values / interface values whose code or dynamic type a contract has fixed can be
// resolved without a solver query.
func (s *State) learn(f string) {
	for _, c := range topConjuncts(f) {
		if strings.HasPrefix(c, "(isfin ") && strings.HasSuffix(c, ")") && s.declare != nil {
			t := c[7 : len(c)-1]
			if _, done := s.fin[t]; !done && !strings.HasPrefix(t, "(fin ") {
				if s.fin == nil {
					s.fin = map[string]string{}
				}
				*s.finCount++
				r := fmt.Sprintf("finr!%d", *s.finCount)
				s.declare(r, "Real")
				s.fin[t] = r
				s.pc = append(s.pc, "(= "+t+" (fin "+r+"))")
				s.propagateFin(t, r)
			}
		}
		// positivity / non-zero facts used by the division fast path
		if s.fin == nil {
			s.fin = map[string]string{}
		}
		if strings.HasPrefix(c, "(= ") && strings.HasSuffix(c, ")") {
			parts := splitSexp(c[3 : len(c)-1])
			if len(parts) == 2 {
				ra, oka := s.fin[parts[0]]
				rb, okb := s.fin[parts[1]]
				switch {
				case oka && !okb && !strings.HasPrefix(parts[1], "(fin "):
					s.fin[parts[1]] = ra
				case okb && !oka && !strings.HasPrefix(parts[0], "(fin "):
					s.fin[parts[0]] = rb
				case !oka && !okb && strings.HasPrefix(parts[1], "(fin ") && balancedParen(parts[1]) && !strings.HasPrefix(parts[0], "(fin "):
					s.fin[parts[0]] = parts[1][5 : len(parts[1])-1]
				case !oka && !okb && strings.HasPrefix(parts[0], "(fin ") && balancedParen(parts[0]) && !strings.HasPrefix(parts[1], "(fin "):
					s.fin[parts[1]] = parts[0][5 : len(parts[0])-1]
				}
			}
		}
		for _, pat := range [][2]string{{"(> ", " 0)"}, {"(>= ", " 1)"}, {"(> ", " 0.0)"}} {
			if strings.HasPrefix(c, pat[0]) && strings.HasSuffix(c, pat[1]) {
				t := c[len(pat[0]) : len(c)-len(pat[1])]
				if balancedOrAtom(t) {
					if s.nonzero == nil {
						s.nonzero = map[string]bool{}
					}
					s.nonzero[t] = true
					s.nonzero["(to_real "+t+")"] = true
				}
			}
		}
		for _, pat := range [][2]string{{"(< 0 ", ")"}, {"(<= 1 ", ")"}, {"(< 0.0 ", ")"}} {
			if strings.HasPrefix(c, pat[0]) && strings.HasSuffix(c, pat[1]) {
				t := c[len(pat[0]) : len(c)-1]
				if balancedOrAtom(t) {
					if s.nonzero == nil {
						s.nonzero = map[string]bool{}
					}
					s.nonzero[t] = true
					s.nonzero["(to_real "+t+")"] = true
				}
			}
		}
		if strings.HasPrefix(c, "(= ") && strings.HasSuffix(c, ")") {
			parts := splitSexp(c[3 : len(c)-1])
			if len(parts) == 2 {
				a, b := parts[0], parts[1]
				if isLit(b) && !isLit(a) {
					if s.known == nil {
						s.known = map[string]string{}
					}
					s.known[a] = b
				} else if isLit(a) && !isLit(b) {
					if s.known == nil {
						s.known = map[string]string{}
					}
					s.known[b] = a
				}
			}
		}
	}
}

// propagateFin: terms already equated with t on this path are finite too.
func (s *State) propagateFin(t, r string) {
	work := []string{t}
	for len(work) > 0 {
		cur := work[0]
		work = work[1:]
		for _, a := range s.pc {
			for _, c := range topConjuncts(a) {
				if !strings.HasPrefix(c, "(= ") || !strings.Contains(c, cur) {
					continue
				}
				parts := splitSexp(c[3 : len(c)-1])
				if len(parts) != 2 {
					continue
				}
				other := ""
				if parts[0] == cur {
					other = parts[1]
				} else if parts[1] == cur {
					other = parts[0]
				}
				if other == "" || strings.HasPrefix(other, "(fin ") || strings.HasPrefix(other, "(ite ") {
					continue
				}
				if _, ok := s.fin[other]; !ok {
					s.fin[other] = r
					work = append(work, other)
				}
			}
		}
	}
}

func balancedOrAtom(t string) bool {
	if !strings.ContainsAny(t, "() ") {
		return true
	}
	return strings.HasPrefix(t, "(") && balancedParen(t)
}

func topConjuncts(f string) []string {
	if strings.HasPrefix(f, "(and ") && strings.HasSuffix(f, ")") {
		var out []string
		for _, p := range splitSexp(f[5 : len(f)-1]) {
			out = append(out, topConjuncts(p)...)
		}
		return out
	}
	return []string{f}
}

// splitSexp splits a space-separated sequence of s-expressions at depth 0.
func splitSexp(s string) []string {
	var out []string
	depth := 0
	start := -1
	for i := 0; i < len(s); i++ {
		c := s[i]
		switch {
		case c == '(':
			if depth == 0 && start < 0 {
				start = i
			}
			depth++
		case c == ')':
			depth--
			if depth == 0 {
				out = append(out, s[start:i+1])
				start = -1
			}
		case c == ' ' || c == '\n' || c == '\t':
			if depth == 0 && start >= 0 {
				out = append(out, s[start:i])
				start = -1
			}
		default:
			if start < 0 {
				start = i
			}
		}
	}
	if start >= 0 {
		out = append(out, s[start:])
	}
	return out
}

func copyHeap(h map[string]string) map[string]string {
	n := make(map[string]string, len(h))
	for k, v := range h {
		n[k] = v
	}
	return n
}

func (s *State) addEvent(e Event) {
	for k, h := range s.held {
		if h.Write {
			e.Held = append(e.Held, k)
		} else {
			e.Held = append(e.Held, k+"#r")
		}
	}
	e.Iter = s.iterEpoch
	s.events = append(s.events, e)
}
