package main

import (
	"fmt"
	"os"
	"os/exec"
	"path/filepath"
	"strings"
	"time"
)

// Bounded validation of the trusted base (DESIGN 0.8): the SMT operator models of smt.go are
// compared with the real Go operations on special values, boundary values and seeded random
// values for which float64 arithmetic is exact. This is NOT a proof and is never added to the
// discharged count; a disagreement means gcv's semantics are wrong (check defect), not that the
// library violates a property.

const validateProg = `package main

import (
	"fmt"
	"math"
	"math/big"
	"math/rand"
	"os"
	"strconv"
)

func enc(f float64) string {
	switch {
	case math.IsNaN(f):
		return "nan"
	case math.IsInf(f, 1):
		return "pinf"
	case math.IsInf(f, -1):
		return "ninf"
	}
	r := new(big.Rat).SetFloat64(f)
	return "fin:" + r.Num().String() + "/" + r.Denom().String()
}

func fin(f float64) bool { return !math.IsNaN(f) && !math.IsInf(f, 0) }

// exact reports whether the float64 result r of an operation equals the exact rational result q.
func exact(q *big.Rat, r float64) bool {
	if !fin(r) {
		return false
	}
	if r == 0 && q.Sign() != 0 {
		return false
	}
	return new(big.Rat).SetFloat64(r).Cmp(q) == 0
}

func main() {
	seed, _ := strconv.ParseInt(os.Args[1], 10, 64)
	rnd := rand.New(rand.NewSource(seed))
	fs := []float64{math.NaN(), math.Inf(1), math.Inf(-1), 0, 1, -1, 0.5, -0.5, 2, 3, -3, 1.5, 1e9, -7.25, 4611686018427387904, 1024, 0.25, 9007199254740992, 1e-3 * 1024, 100, 10, 1000}
	for i := 0; i < 14; i++ {
		k := float64(rnd.Int63n(1<<21) - 1<<20)
		fs = append(fs, k/float64(int64(1)<<uint(rnd.Intn(9))))
	}
	skipped := 0
	for _, a := range fs {
		for _, b := range fs {
			type bop struct {
				name string
				r    float64
				q    func(x, y *big.Rat) *big.Rat
			}
			ops := []bop{
				{"fadd", a + b, func(x, y *big.Rat) *big.Rat { return new(big.Rat).Add(x, y) }},
				{"fsub", a - b, func(x, y *big.Rat) *big.Rat { return new(big.Rat).Sub(x, y) }},
				{"fmul", a * b, func(x, y *big.Rat) *big.Rat { return new(big.Rat).Mul(x, y) }},
				{"fdiv", a / b, func(x, y *big.Rat) *big.Rat {
					if y.Sign() == 0 {
						return nil
					}
					return new(big.Rat).Quo(x, y)
				}},
			}
			for _, o := range ops {
				if fin(a) && fin(b) && fin(o.r) {
					q := o.q(new(big.Rat).SetFloat64(a), new(big.Rat).SetFloat64(b))
					if q == nil || !exact(q, o.r) {
						skipped++ // rounding (A1) or signed zero: outside the model by assumption
						continue
					}
				}
				if fin(a) && fin(b) && !fin(o.r) && !(o.name == "fdiv" && b == 0) {
					skipped++ // overflow to Inf (A2)
					continue
				}
				fmt.Println("F2", o.name, enc(a), enc(b), "=>", enc(o.r))
			}
			fmt.Println("B2", "flt", enc(a), enc(b), "=>", a < b)
			fmt.Println("B2", "fle", enc(a), enc(b), "=>", a <= b)
			fmt.Println("B2", "feq", enc(a), enc(b), "=>", a == b)
			fmt.Println("F2", "fmax", enc(a), enc(b), "=>", enc(math.Max(a, b)))
			fmt.Println("F2", "fmin", enc(a), enc(b), "=>", enc(math.Min(a, b)))
		}
		fmt.Println("F1", "fneg", enc(a), "=>", enc(-a+0)) // +0: no signed zero in the model
		fmt.Println("F1", "fceil", enc(a), "=>", enc(math.Ceil(a)+0))
		fmt.Println("F1", "ffloor", enc(a), "=>", enc(math.Floor(a)+0))
		fmt.Println("F1", "ftrunc", enc(a), "=>", enc(math.Trunc(a)+0))
		if fin(a) && math.Abs(a) < 9.2e18 {
			fmt.Println("FI", "f2i", enc(a), "=>", int64(a))
		}
	}
	is := []int64{0, 1, -1, 7, -7, 10, -10, 3, 2147483647, 2147483648, -2147483648, -2147483649, 4294967295, 4294967296, 9007199254740992, -9007199254740992, math.MaxInt64, math.MinInt64, 255, 256, -255}
	for i := 0; i < 12; i++ {
		is = append(is, rnd.Int63()-rnd.Int63())
	}
	for _, a := range is {
		fmt.Println("I1", "wrap32", a, "=>", int64(int32(a)))
		fmt.Println("I1", "wrapu32", a, "=>", int64(uint32(a)))
		fmt.Println("I1", "wrapu8", a, "=>", int64(uint8(a)))
		fmt.Println("I1U", "wrapu64", a, "=>", new(big.Int).SetUint64(uint64(a)).String())
		if a >= -9007199254740992 && a <= 9007199254740992 {
			fmt.Println("IF", "i2f", a, "=>", enc(float64(a)))
		}
		for _, b := range is {
			if b != 0 && !(a == math.MinInt64 && b == -1) {
				fmt.Println("I2", "tdiv", a, b, "=>", a/b)
				fmt.Println("I2", "tmod", a, b, "=>", a%b)
			}
			mx, mn := a, a
			if b > mx {
				mx = b
			}
			if b < mn {
				mn = b
			}
			fmt.Println("I2", "imax", a, b, "=>", mx)
			fmt.Println("I2", "imin", a, b, "=>", mn)
			// wrap64 of the mathematical sum/product = Go's wrapping int64 arithmetic
			sum := new(big.Int).Add(big.NewInt(a), big.NewInt(b))
			fmt.Println("I1B", "wrap64", sum.String(), "=>", a+b)
			prod := new(big.Int).Mul(big.NewInt(a), big.NewInt(b))
			fmt.Println("I1B", "wrap64", prod.String(), "=>", a*b)
		}
	}
	// instances of the sqrt / log10 axioms (A6) against the real functions
	bad := map[string]int{}
	n := map[string]int{}
	chk := func(name string, ok bool) {
		n[name]++
		if !ok {
			bad[name]++
		}
	}
	var xs []float64
	for i := 0; i <= 200000; i++ {
		xs = append(xs, float64(i))
	}
	for i := 0; i < 200000; i++ {
		xs = append(xs, float64(rnd.Int63n(2000000000)))
	}
	for i := 0; i < 50000; i++ {
		xs = append(xs, rnd.Float64()*1e9)
	}
	prevx, prevs, prevl := -1.0, -1.0, math.Inf(-1)
	sorted := append([]float64(nil), xs[:200001]...)
	for _, x := range sorted {
		s := math.Sqrt(x)
		chk("sqrt_monotone", x >= prevx && s >= prevs)
		prevx, prevs = x, s
		if x > 0 {
			l := math.Log10(x)
			chk("log10_monotone", l >= prevl)
			prevl = l
		}
	}
	for _, x := range xs {
		s := math.Sqrt(x)
		k := int64(s)
		chk("sqrt_floor_bounds", k >= 0 && float64(k*k) <= x && float64((k+1)*(k+1)) > x && float64(k) <= math.Max(x, 1))
		chk("sqrt_nonneg", s >= 0)
		if x > 0 {
			l := math.Log10(x)
			chk("log10_below_identity", l < x)
			chk("log10_thresholds", (x < 1 || l >= 0) && (x < 10 || l >= 1) && (x < 100 || l >= 2) && (x < 1000 || l >= 3) && l <= 19)
		}
	}
	chk("log10_exact_points", math.Log10(1) == 0 && math.Log10(10) == 1 && math.Log10(100) == 2 && math.Log10(1000) == 3)
	for k, v := range n {
		fmt.Println("AX", k, v, bad[k])
	}
	fmt.Println("SKIPPED", skipped)
}
`

func smtF(s string) string {
	switch s {
	case "nan", "pinf", "ninf":
		return s
	}
	s = strings.TrimPrefix(s, "fin:")
	parts := strings.SplitN(s, "/", 2)
	num, den := parts[0], parts[1]
	neg := strings.HasPrefix(num, "-")
	num = strings.TrimPrefix(num, "-")
	t := "(/ " + num + ".0 " + den + ".0)"
	if neg {
		t = "(- " + t + ")"
	}
	return "(fin " + t + ")"
}

func smtI(s string) string {
	if strings.HasPrefix(s, "-") {
		return "(- " + s[1:] + ")"
	}
	return s
}

type validationReport struct {
	Cases      int               `json:"operator_cases_checked"`
	Skipped    int               `json:"cases_skipped_as_inexact_or_overflow_A1_A2"`
	Axioms     map[string][2]int `json:"axiom_instances_checked_failed"`
	Failures   []string          `json:"failures"`
	Seconds    float64           `json:"seconds"`
	Seed       int               `json:"seed"`
	Label      string            `json:"label"`
	Error      string            `json:"error,omitempty"`
}

func runModelValidation(seed int) validationReport {
	start := time.Now()
	rep := validationReport{Axioms: map[string][2]int{}, Seed: seed,
		Label: "bounded, not counted as proof: SMT operator models (float special values, exact finite arithmetic, conversions, wraps, integer division) and instances of the sqrt/log10 axioms compared with the real Go operations"}
	dir, err := os.MkdirTemp("", "gcv-validate-")
	if err != nil {
		rep.Error = err.Error()
		return rep
	}
	defer os.RemoveAll(dir)
	os.WriteFile(filepath.Join(dir, "main.go"), []byte(validateProg), 0o644)
	os.WriteFile(filepath.Join(dir, "go.mod"), []byte("module gcvvalidate\n\ngo 1.23\n"), 0o644)
	cmd := exec.Command("go", "run", ".", fmt.Sprint(seed))
	cmd.Dir = dir
	cmd.Env = goEnv()
	out, err := cmd.Output()
	if err != nil {
		rep.Error = "go run failed: " + err.Error()
		return rep
	}
	var conj []string
	var texts []string
	for _, line := range strings.Split(string(out), "\n") {
		f := strings.Fields(line)
		if len(f) == 0 {
			continue
		}
		var c string
		switch f[0] {
		case "F2":
			c = fmt.Sprintf("(= (%s %s %s) %s)", f[1], smtF(f[2]), smtF(f[3]), smtF(f[5]))
		case "B2":
			c = fmt.Sprintf("(= (%s %s %s) %s)", f[1], smtF(f[2]), smtF(f[3]), f[5])
		case "F1":
			c = fmt.Sprintf("(= (%s %s) %s)", f[1], smtF(f[2]), smtF(f[4]))
		case "FI":
			c = fmt.Sprintf("(= (%s %s) %s)", f[1], smtF(f[2]), smtI(f[4]))
		case "IF":
			c = fmt.Sprintf("(= (%s %s) %s)", f[1], smtI(f[2]), smtF(f[4]))
		case "I1", "I1U", "I1B":
			c = fmt.Sprintf("(= (%s %s) %s)", f[1], smtI(f[2]), smtI(f[4]))
		case "I2":
			c = fmt.Sprintf("(= (%s %s %s) %s)", f[1], smtI(f[2]), smtI(f[3]), smtI(f[5]))
		case "AX":
			var n, b int
			fmt.Sscan(f[2], &n)
			fmt.Sscan(f[3], &b)
			rep.Axioms[f[1]] = [2]int{n, b}
			if b > 0 {
				rep.Failures = append(rep.Failures, fmt.Sprintf("axiom %s fails on %d of %d real instances", f[1], b, n))
			}
			continue
		case "SKIPPED":
			fmt.Sscan(f[1], &rep.Skipped)
			continue
		default:
			continue
		}
		conj = append(conj, c)
		texts = append(texts, line)
	}
	rep.Cases = len(conj)
	if os.Getenv("GCV_VALIDATE_CANARY") != "" && len(conj) > 10 {
		// canary: a deliberately wrong case must be reported, otherwise the comparison is vacuous
		conj[7] = "(= (fadd (fin 1.0) (fin 1.0)) (fin 3.0))"
		texts[7] = "CANARY 1+1 => 3"
	}
	wd := newWorkDir()
	defer wd.cleanup()
	var check func(lo, hi int)
	check = func(lo, hi int) {
		var b strings.Builder
		b.WriteString(smtPrelude)
		b.WriteString("(assert (not (and true\n")
		for _, c := range conj[lo:hi] {
			b.WriteString(c + "\n")
		}
		b.WriteString(")))\n(check-sat)\n")
		f := wd.file(fmt.Sprintf("validate_%d_%d", lo, hi))
		os.WriteFile(f, []byte(b.String()), 0o644)
		r, _ := solvePortfolio(f, 60, false)
		if r.Status == "unsat" {
			return
		}
		if hi-lo == 1 {
			rep.Failures = append(rep.Failures, fmt.Sprintf("model disagrees with Go (%s): %s", r.Status, texts[lo]))
			return
		}
		mid := (lo + hi) / 2
		check(lo, mid)
		check(mid, hi)
	}
	const chunk = 1500
	for lo := 0; lo < len(conj); lo += chunk {
		hi := lo + chunk
		if hi > len(conj) {
			hi = len(conj)
		}
		check(lo, hi)
		if len(rep.Failures) > 20 {
			break
		}
	}
	rep.Seconds = round3(time.Since(start).Seconds())
	return rep
}

func cmdValidate(args []string) int {
	seed := seedFromEnv()
	rep := runModelValidation(seed)
	fmt.Printf("model validation (bounded): %d operator cases, %d skipped (inexact/overflow, A1/A2), axioms %v, %.1fs\n", rep.Cases, rep.Skipped, rep.Axioms, rep.Seconds)
	if rep.Error != "" {
		fmt.Println("CHECK-DEFECT model validation could not run:", rep.Error)
		return 2
	}
	for _, f := range rep.Failures {
		fmt.Println("CHECK-DEFECT", f)
	}
	if len(rep.Failures) > 0 {
		return 2
	}
	return 0
}
