package main

import (
	"bufio"
	"fmt"
	"os"
	"path/filepath"
	"regexp"
	"sort"
	"strconv"
	"strings"
)

// Contract files: /repo/<pkg>/zz_contracts_verif.go, comment-only, //go:build verif.
// Grammar (one directive per //@ line; a trailing backslash continues the line):
//
//   //@ type <pkg.Type>
//   //@   guarded <mu>: f1, f2          fields that may be accessed only with this.<mu> held
//   //@   atomic: f                     fields accessed only through sync/atomic
//   //@   immutable: f, g               written only before the object escapes its constructor
//   //@   dyntype f: *pkg.T             interface field whose dynamic type is fixed
//   //@   inv[Cxx,...] label: expr      object invariant clause over `this`
//   //@ ghost <pkg.Type>.<name> <type>  ghost / model field
//   //@ define name(a T, b U) R = expr  spec macro
//   //@ func <name as printed by go/ssa relative to its package>
//   //@   requires label: expr
//   //@   ensures[Cxx] label: expr
//   //@   maintains[Cxx] x              requires inv(x) and ensures every inv clause of x
//   //@   assigns loc, loc              frame
//   //@   loop N invariant label: expr
//   //@   safety[Cxx]                   emit panic-freedom obligations under these properties
//   //@   owns[Cxx]                     emit lock-discipline obligations under these properties
//   //@   inline                        callers execute the body instead of the contract
//   //@   trusted                       contract assumed, body not verified (listed in evidence)
//   //@   pure                          no heap effect; result is a function of args (relational)
//   //@   bind name = result of call K to <callee>

type Clause struct {
	Kind   string // requires ensures inv loopinv assert
	Props  []string
	Label  string
	Text   string
	Expr   *SExpr
	Loop   int
	File   string
	Line   int
	Region string // known-finding region attached at run time
	Varies []string // relational clauses: parameters that differ between the two runs
}

type TypeSpec struct {
	Name      string // pkg.Type
	Guarded   map[string]string // field -> lock field
	Atomic    map[string]bool
	Immutable map[string]bool
	DynType   map[string]string
	Invs      []*Clause
	Owned     map[string]string // field -> owner lock expression (informational)
	SubObjects map[string]string // pointer fields to objects owned by this one: field -> lock that protects them
	AtomicCell map[string]bool   // pointer fields whose pointee is accessed only through sync/atomic
	Confined  map[string]bool   // fields of objects that are never shared between goroutines (configuration under construction)
	PartOf    string            // the invariant is established as part of this owner type's invariant (audit)
	Rely      map[string]*SExpr // field -> relation between `old` and `new` values allowed to other goroutines
}

type GhostField struct {
	Owner string
	Name  string
	Type  string
}

type Define struct {
	Opaque bool
	Name   string
	Params []string
	PTypes []string
	RType  string
	Body   *SExpr
}

type Bind struct {
	Name   string
	Type   string // optional: lets callers of the contract introduce the bound value as a witness
	K      int
	Callee string
}

type FuncSpec struct {
	Name      string // pkg-qualified: "limit.(*AIMDLimit).OnSample"
	Pkg       string
	Requires  []*Clause
	Ensures   []*Clause
	REnsures  []*Clause // proved with rely-havoc of atomic cells switched on
	Maintains []*Clause // Text = variable name
	Establishes []*Clause // ensures every inv clause of the named (result) object
	Assigns   []string
	HasAssigns bool
	LoopInvs  []*Clause
	LoopAssigns map[int][]string
	Safety    []string
	Owns      []string
	Inline    bool
	Trusted   bool
	Pure      bool
	Atomic    bool
	Relational []*Clause
	Binds     []Bind
	Params    []string // for interface method contracts: parameter names
	File      string
	Line      int
	NoHavoc   bool
	ZeroesNewFields bool // a Reset-like method: fields the contract files do not know must end as their zero value
	NilReceiver bool // the method is meant to be callable on a nil receiver: no non-nil assumption
	Reveal    []string
	RelInline []string // callees executed inline in relational (two-run) mode
	Inlines   []string // callees executed inline in this function's proof (their call events stay visible)
	Implements string
	Refines   []*Refine // interface method contracts this method is proved to refine
	GhostSets [][2]string // ghost assignments performed at function exit: target, expression
	AutoInv   bool        // discipline-only runs: loops without an invariant are cut with `true`
}

// Refine: `refines[Cxx] core.Strategy.TryAcquire with busy = int(s.inFlight); limit = int(s.limit)`.
// The concrete method is proved against the interface method's contract with every ghost model
// field `this.<g>` replaced by the abstraction expression over the concrete state.
type Refine struct {
	Props  []string
	Target string
	Map    map[string]*SExpr
	MapTxt map[string]string
	File   string
	Line   int
}

// Lemma: a quantified fact about opaque spec functions, proved once (with the definitions
// revealed) and available everywhere as an axiom triggered on the opaque application.
type Lemma struct {
	Name   string
	Props  []string
	Params []string
	PTypes []string
	Body   *SExpr
	Text   string
	File   string
	Line   int
}

// TableFact: a fact about every entry of a package-level lookup table ([]int), established by
// evaluating the real, initialised table (exhaustive over the table) and assumed where the
// table is read.
type TableFact struct {
	Global string // "limit/functions.sqrtRootLookup"
	Pkg    string
	Props  []string
	Label  string
	Text   string
	Expr   *SExpr
	File   string
	Line   int
}

type Specs struct {
	Tables  []*TableFact
	Lemmas  []*Lemma
	Types   map[string]*TypeSpec
	Funcs   map[string]*FuncSpec
	Ghosts  map[string]*GhostField // "pkg.Type.name"
	Defines map[string]*Define
	Files   []string
}

var clauseRe = regexp.MustCompile(`^(\w+)(?:\[([^\]]*)\])?\s*(.*)$`)
var labelRe = regexp.MustCompile(`^([A-Za-z_][A-Za-z0-9_]*):\s*(.*)$`)

func splitProps(s string) []string {
	var out []string
	for _, p := range strings.Split(s, ",") {
		p = strings.TrimSpace(p)
		if p != "" {
			out = append(out, p)
		}
	}
	return out
}

func splitList(s string) []string {
	var out []string
	depth := 0
	cur := ""
	for _, c := range s {
		switch c {
		case '(', '[':
			depth++
		case ')', ']':
			depth--
		}
		if c == ',' && depth == 0 {
			if t := strings.TrimSpace(cur); t != "" {
				out = append(out, t)
			}
			cur = ""
			continue
		}
		cur += string(c)
	}
	if t := strings.TrimSpace(cur); t != "" {
		out = append(out, t)
	}
	return out
}

func loadSpecs(repo string) (*Specs, error) {
	sp := &Specs{Types: map[string]*TypeSpec{}, Funcs: map[string]*FuncSpec{}, Ghosts: map[string]*GhostField{}, Defines: map[string]*Define{}}
	var files []string
	filepath.Walk(repo, func(p string, info os.FileInfo, err error) error {
		if err != nil {
			return nil
		}
		if info.IsDir() && (info.Name() == ".git" || info.Name() == "vendor") {
			return filepath.SkipDir
		}
		if !info.IsDir() && strings.HasPrefix(info.Name(), "zz_contracts") && strings.HasSuffix(info.Name(), "_verif.go") {
			files = append(files, p)
		}
		return nil
	})
	sort.Strings(files)
	for _, f := range files {
		if err := sp.parseFile(repo, f); err != nil {
			return nil, err
		}
	}
	sp.Files = files
	return sp, nil
}

func (sp *Specs) parseFile(repo, file string) error {
	fh, err := os.Open(file)
	if err != nil {
		return err
	}
	defer fh.Close()
	rel, _ := filepath.Rel(repo, filepath.Dir(file))
	pkg := filepath.ToSlash(rel)
	sc := bufio.NewScanner(fh)
	sc.Buffer(make([]byte, 1<<20), 1<<20)
	var curT *TypeSpec
	var curF *FuncSpec
	lineNo := 0
	pending := ""
	pendingLine := 0
	for sc.Scan() {
		lineNo++
		line := strings.TrimSpace(sc.Text())
		if !strings.HasPrefix(line, "//@") {
			continue
		}
		body := strings.TrimSpace(strings.TrimPrefix(line, "//@"))
		if i := strings.Index(body, " //"); i >= 0 {
			body = strings.TrimSpace(body[:i])
		}
		if pending != "" {
			body = pending + " " + body
		} else {
			pendingLine = lineNo
		}
		if strings.HasSuffix(body, "\\") {
			pending = strings.TrimSpace(strings.TrimSuffix(body, "\\"))
			continue
		}
		pending = ""
		if body == "" {
			continue
		}
		m := clauseRe.FindStringSubmatch(body)
		if m == nil {
			return fmt.Errorf("%s:%d: cannot parse directive %q", file, pendingLine, body)
		}
		kw, props, rest := m[1], splitProps(m[2]), strings.TrimSpace(m[3])
		mk := func(kind string) (*Clause, error) {
			c := &Clause{Kind: kind, Props: props, File: file, Line: pendingLine}
			lm := labelRe.FindStringSubmatch(rest)
			if lm == nil {
				// relational: "label varies a, b: expr"
				if i := strings.Index(rest, " varies "); kind == "relational" && i > 0 {
					lbl := strings.TrimSpace(rest[:i])
					vs, body := parseVaries(strings.TrimSpace(rest[i+1:]))
					lm = []string{"", lbl, body}
					c.Varies = vs
				}
			}
			if lm == nil {
				return nil, fmt.Errorf("%s:%d: clause needs `label: expr`", file, pendingLine)
			}
			c.Label, c.Text = lm[1], lm[2]
			e, err := parseSpecExpr(c.Text)
			if err != nil {
				return nil, fmt.Errorf("%s:%d: %v", file, pendingLine, err)
			}
			c.Expr = e
			return c, nil
		}
		switch kw {
		case "type":
			name := qualify(pkg, rest)
			curT = &TypeSpec{Name: name, Guarded: map[string]string{}, Atomic: map[string]bool{}, Immutable: map[string]bool{}, DynType: map[string]string{}, Owned: map[string]string{}, AtomicCell: map[string]bool{}, Rely: map[string]*SExpr{}, SubObjects: map[string]string{}}
			sp.Types[name] = curT
			curF = nil
		case "func":
			name := rest
			var params []string
			if i := strings.Index(rest, " params "); i >= 0 {
				name = strings.TrimSpace(rest[:i])
				params = splitList(rest[i+8:])
			}
			name = qualify(pkg, name)
			curF = &FuncSpec{Name: name, Pkg: pkg, File: file, Line: pendingLine, LoopAssigns: map[int][]string{}, Params: params}
			if _, dup := sp.Funcs[name]; dup {
				return fmt.Errorf("%s:%d: duplicate contract for %s", file, pendingLine, name)
			}
			sp.Funcs[name] = curF
			curT = nil
		case "ghost":
			parts := strings.Fields(rest)
			if len(parts) < 2 {
				return fmt.Errorf("%s:%d: ghost <Type.name> <type>", file, pendingLine)
			}
			full := qualify(pkg, parts[0])
			i := strings.LastIndex(full, ".")
			g := &GhostField{Owner: full[:i], Name: full[i+1:], Type: strings.Join(parts[1:], " ")}
			sp.Ghosts[full] = g
		case "define", "opaque":
			d, err := parseDefine(rest)
			if err != nil {
				return fmt.Errorf("%s:%d: %v", file, pendingLine, err)
			}
			d.Opaque = kw == "opaque"
			sp.Defines[d.Name] = d
		case "tablefact":
			// tablefact[Cxx] global label: expr over i (index), v (entry), n (length)
			parts := strings.SplitN(rest, " ", 2)
			if len(parts) != 2 {
				return fmt.Errorf("%s:%d: tablefact global label: expr", file, pendingLine)
			}
			lm := labelRe.FindStringSubmatch(strings.TrimSpace(parts[1]))
			if lm == nil {
				return fmt.Errorf("%s:%d: tablefact needs label: expr", file, pendingLine)
			}
			e, err := parseSpecExpr(lm[2])
			if err != nil {
				return fmt.Errorf("%s:%d: %v", file, pendingLine, err)
			}
			sp.Tables = append(sp.Tables, &TableFact{Global: qualify(pkg, parts[0]), Pkg: pkg, Props: props, Label: lm[1], Text: lm[2], Expr: e, File: file, Line: pendingLine})
		case "lemma":
			// lemma[Cxx] name(a T, b U): expr
			i := strings.Index(rest, "(")
			j := strings.Index(rest, "):")
			if i < 0 || j < i {
				return fmt.Errorf("%s:%d: lemma name(a T, ...): expr", file, pendingLine)
			}
			lm := &Lemma{Name: qualify(pkg, "lemma."+strings.TrimSpace(rest[:i])), Props: props, File: file, Line: pendingLine, Text: strings.TrimSpace(rest[j+2:])}
			for _, pp := range splitList(rest[i+1 : j]) {
				fs := strings.Fields(pp)
				if len(fs) != 2 {
					return fmt.Errorf("%s:%d: lemma parameter %q", file, pendingLine, pp)
				}
				lm.Params = append(lm.Params, fs[0])
				lm.PTypes = append(lm.PTypes, fs[1])
			}
			e, err := parseSpecExpr(lm.Text)
			if err != nil {
				return fmt.Errorf("%s:%d: %v", file, pendingLine, err)
			}
			lm.Body = e
			sp.Lemmas = append(sp.Lemmas, lm)
		case "ghostset":
			i := strings.Index(rest, "=")
			if i < 0 {
				return fmt.Errorf("%s:%d: ghostset target = expr", file, pendingLine)
			}
			curF.GhostSets = append(curF.GhostSets, [2]string{strings.TrimSpace(rest[:i]), strings.TrimSpace(rest[i+1:])})
		case "inlines":
			for _, n := range splitList(rest) {
				curF.Inlines = append(curF.Inlines, qualify(pkg, n))
			}
		case "relational_inline":
			for _, n := range splitList(rest) {
				curF.RelInline = append(curF.RelInline, qualify(pkg, n))
			}
		case "zeroes_unclassified_fields":
			curF.ZeroesNewFields = true
		case "nilreceiver":
			curF.NilReceiver = true
		case "implements":
			curF.Implements = qualify(pkg, rest)
		case "refines":
			if curF == nil {
				return fmt.Errorf("%s:%d: refines outside func", file, pendingLine)
			}
			r := &Refine{Props: props, Map: map[string]*SExpr{}, MapTxt: map[string]string{}, File: file, Line: pendingLine}
			target := rest
			if i := strings.Index(rest, " with "); i >= 0 {
				target = strings.TrimSpace(rest[:i])
				for _, part := range strings.Split(rest[i+6:], ";") {
					j := strings.Index(part, "=")
					if j < 0 {
						return fmt.Errorf("%s:%d: refines ... with g = expr; ...", file, pendingLine)
					}
					g := strings.TrimSpace(part[:j])
					e, err := parseSpecExpr(strings.TrimSpace(part[j+1:]))
					if err != nil {
						return fmt.Errorf("%s:%d: %v", file, pendingLine, err)
					}
					r.Map[g] = e
					r.MapTxt[g] = strings.TrimSpace(part[j+1:])
				}
			}
			r.Target = qualify(pkg, target)
			curF.Refines = append(curF.Refines, r)
		case "reveal":
			if curF == nil {
				return fmt.Errorf("%s:%d: reveal outside func", file, pendingLine)
			}
			curF.Reveal = append(curF.Reveal, splitList(rest)...)
		case "partof":
			if curT == nil {
				return fmt.Errorf("%s:%d: partof outside type", file, pendingLine)
			}
			curT.PartOf = qualify(pkg, strings.TrimSpace(rest))
		case "guarded":
			if curT == nil {
				return fmt.Errorf("%s:%d: guarded outside type", file, pendingLine)
			}
			i := strings.Index(rest, ":")
			mu := strings.TrimSpace(rest[:i])
			for _, f := range splitList(rest[i+1:]) {
				curT.Guarded[f] = mu
			}
		case "atomic":
			if curT != nil {
				for _, f := range splitList(strings.TrimPrefix(rest, ":")) {
					curT.Atomic[f] = true
				}
			} else if curF != nil {
				curF.Atomic = true
			}
		case "confined":
			if curT == nil {
				return fmt.Errorf("%s:%d: confined outside type", file, pendingLine)
			}
			if curT.Confined == nil {
				curT.Confined = map[string]bool{}
			}
			for _, f := range splitList(strings.TrimPrefix(rest, ":")) {
				curT.Confined[f] = true
			}
		case "immutable":
			if curT == nil {
				return fmt.Errorf("%s:%d: immutable outside type", file, pendingLine)
			}
			for _, f := range splitList(strings.TrimPrefix(rest, ":")) {
				curT.Immutable[f] = true
			}
		case "owned":
			if curT == nil {
				return fmt.Errorf("%s:%d: owned outside type", file, pendingLine)
			}
			i := strings.Index(rest, ":")
			for _, f := range splitList(rest[i+1:]) {
				curT.Owned[f] = strings.TrimSpace(rest[:i])
			}
		case "subobjects":
			i := strings.Index(rest, ":")
			for _, f := range splitList(rest[i+1:]) {
				curT.SubObjects[f] = strings.TrimSpace(rest[:i])
			}
		case "atomiccell":
			for _, f := range splitList(strings.TrimPrefix(rest, ":")) {
				curT.AtomicCell[f] = true
			}
		case "rely":
			i := strings.Index(rest, ":")
			e, err := parseSpecExpr(strings.TrimSpace(rest[i+1:]))
			if err != nil {
				return fmt.Errorf("%s:%d: %v", file, pendingLine, err)
			}
			curT.Rely[strings.TrimSpace(rest[:i])] = e
		case "dyntype":
			i := strings.Index(rest, ":")
			curT.DynType[strings.TrimSpace(rest[:i])] = strings.TrimSpace(rest[i+1:])
		case "inv":
			if curT == nil {
				return fmt.Errorf("%s:%d: inv outside type", file, pendingLine)
			}
			c, err := mk("inv")
			if err != nil {
				return err
			}
			curT.Invs = append(curT.Invs, c)
		case "requires", "ensures", "relational", "rensures":
			if curF == nil {
				return fmt.Errorf("%s:%d: %s outside func", file, pendingLine, kw)
			}
			c, err := mk(kw)
			if err != nil {
				return err
			}
			switch kw {
			case "requires":
				curF.Requires = append(curF.Requires, c)
			case "ensures":
				curF.Ensures = append(curF.Ensures, c)
			case "relational":
				curF.Relational = append(curF.Relational, c)
			case "rensures":
				curF.REnsures = append(curF.REnsures, c)
			}
		case "maintains":
			curF.Maintains = append(curF.Maintains, &Clause{Kind: "maintains", Props: props, Text: rest, File: file, Line: pendingLine})
		case "establishes":
			curF.Establishes = append(curF.Establishes, &Clause{Kind: "establishes", Props: props, Text: rest, File: file, Line: pendingLine})
		case "assigns":
			curF.HasAssigns = true
			if rest != "nothing" {
				curF.Assigns = append(curF.Assigns, splitList(rest)...)
			}
		case "loop":
			parts := strings.SplitN(rest, " ", 3)
			n, err := strconv.Atoi(parts[0])
			if err != nil || len(parts) < 3 {
				return fmt.Errorf("%s:%d: loop N invariant|assigns ...", file, pendingLine)
			}
			if i := strings.Index(parts[1], "["); i > 0 && strings.HasSuffix(parts[1], "]") {
				props = splitProps(parts[1][i+1 : len(parts[1])-1])
				parts[1] = parts[1][:i]
			}
			switch parts[1] {
			case "invariant":
				rest = parts[2]
				c, err := mk("loopinv")
				if err != nil {
					return err
				}
				c.Loop = n
				curF.LoopInvs = append(curF.LoopInvs, c)
			case "assigns":
				curF.LoopAssigns[n] = append(curF.LoopAssigns[n], splitList(parts[2])...)
			default:
				return fmt.Errorf("%s:%d: loop N invariant|assigns", file, pendingLine)
			}
		case "safety":
			curF.Safety = append(curF.Safety, props...)
		case "owns":
			curF.Owns = append(curF.Owns, props...)
		case "inline":
			curF.Inline = true
		case "trusted":
			curF.Trusted = true
		case "pure":
			curF.Pure = true
		case "nohavoc":
			curF.NoHavoc = true
		case "bind":
			// bind name = call K callee
			var b Bind
			parts := strings.Fields(rest)
			if len(parts) == 6 && parts[2] == "=" && parts[3] == "call" {
				b.Type = parts[1]
				parts = append(parts[:1], parts[2:]...)
			}
			if len(parts) != 5 || parts[1] != "=" || parts[2] != "call" {
				return fmt.Errorf("%s:%d: bind name [type] = call K callee", file, pendingLine)
			}
			b.Name = parts[0]
			b.K, _ = strconv.Atoi(parts[3])
			b.Callee = parts[4]
			curF.Binds = append(curF.Binds, b)
		case "package":
			// ignored
		default:
			return fmt.Errorf("%s:%d: unknown directive %q", file, pendingLine, kw)
		}
	}
	return nil
}

// qualify prefixes an unqualified function/type name with its package directory:
// "(*AIMDLimit).OnSample" -> "limit.(*AIMDLimit).OnSample"; "core.Limit.OnSample" stays.
func qualify(pkg, name string) string {
	name = strings.TrimSpace(name)
	if strings.Contains(name, ":") {
		return name
	}
	if strings.HasPrefix(name, "(*") {
		inner := name[2:]
		if strings.Contains(strings.SplitN(inner, ")", 2)[0], ".") {
			return name
		}
		return "(*" + pkg + "." + inner
	}
	if strings.HasPrefix(name, "(") {
		inner := name[1:]
		if strings.Contains(strings.SplitN(inner, ")", 2)[0], ".") {
			return name
		}
		return "(" + pkg + "." + inner
	}
	first := strings.SplitN(name, ".", 2)[0]
	if knownPkgs[first] && strings.Contains(name, ".") {
		return name
	}
	return pkg + "." + name
}

var knownPkgs = map[string]bool{"core": true, "limit": true, "limiter": true, "strategy": true, "measurements": true,
	"grpc": true, "functions": true, "matchers": true, "pool": true, "gometrics": true, "datadog": true,
	"limit/functions": true, "strategy/matchers": true, "patterns/pool": true, "metric_registry/gometrics": true, "metric_registry/datadog": true}

func parseDefine(s string) (*Define, error) {
	// name(a T, b U) R = expr
	i := strings.Index(s, "(")
	j := strings.Index(s, ")")
	k := strings.Index(s, "=")
	if i < 0 || j < i || k < j {
		return nil, fmt.Errorf("define name(a T, ...) R = expr")
	}
	d := &Define{Name: strings.TrimSpace(s[:i])}
	for _, p := range splitList(s[i+1 : j]) {
		fs := strings.Fields(p)
		if len(fs) != 2 {
			return nil, fmt.Errorf("define parameter %q", p)
		}
		d.Params = append(d.Params, fs[0])
		d.PTypes = append(d.PTypes, fs[1])
	}
	d.RType = strings.TrimSpace(s[j+1 : k])
	e, err := parseSpecExpr(strings.TrimSpace(s[k+1:]))
	if err != nil {
		return nil, err
	}
	d.Body = e
	return d, nil
}
