package main

import (
	"fmt"
	"go/types"

	"golang.org/x/tools/go/ssa"
)

// Built-in models of library functions (trusted stubs, DESIGN §2.6 / §7 A5-A9).
type modelFn func(x *Exec, s *State, fn *ssa.Function, args []Val) Val

var builtinModels map[string]modelFn

func unit() Val { return Val{} }

func init() {
	builtinModels = map[string]modelFn{}
	m := builtinModels
	lock := func(op string) modelFn {
		return func(x *Exec, s *State, fn *ssa.Function, args []Val) Val {
			x.note("stub: sync mutex " + op + " (A5)")
			x.lockOp(s, args[0], op)
			return unit()
		}
	}
	for _, t := range []string{"(*sync.Mutex)", "(*sync.RWMutex)"} {
		m[t+".Lock"] = lock("Lock")
		m[t+".Unlock"] = lock("Unlock")
	}
	m["(*sync.RWMutex).RLock"] = lock("RLock")
	m["(*sync.RWMutex).RUnlock"] = lock("RUnlock")

	// sync/atomic on int32/int64 cells
	atomicLoad := func(x *Exec, s *State, fn *ssa.Function, args []Val) Val {
		x.note("stub: sync/atomic (A5)")
		loc := x.toLoc(args[0])
		x.atomicAccess(s, loc)
		v := x.loadLoc(s, loc)
		s.addEvent(Event{Name: "atomic.Load", Args: []Val{args[0]}, Res: []Val{v}})
		return v
	}
	atomicStore := func(x *Exec, s *State, fn *ssa.Function, args []Val) Val {
		loc := x.toLoc(args[0])
		x.atomicAccess(s, loc)
		x.storeLoc(s, loc, Val{Typ: loc.Typ, L: args[1].L})
		s.addEvent(Event{Name: "atomic.Store", Args: args})
		return unit()
	}
	atomicAdd := func(x *Exec, s *State, fn *ssa.Function, args []Val) Val {
		loc := x.toLoc(args[0])
		x.atomicAccess(s, loc)
		old := x.loadLoc(s, loc)
		nv := wrapFor(loc.Typ, "(+ "+old.L[0]+" "+args[1].L[0]+")")
		x.storeLoc(s, loc, Val{Typ: loc.Typ, L: []string{nv}})
		r := Val{Typ: loc.Typ, L: []string{nv}}
		s.addEvent(Event{Name: "atomic.Add", Args: args, Res: []Val{r}})
		return r
	}
	for _, sz := range []string{"Int32", "Int64", "Uint64", "Uint32"} {
		m["sync/atomic.Load"+sz] = atomicLoad
		m["sync/atomic.Store"+sz] = atomicStore
		m["sync/atomic.Add"+sz] = atomicAdd
	}

	// math
	m["math.Max"] = func(x *Exec, s *State, fn *ssa.Function, args []Val) Val {
		return fltVal(x.nameF(s, fctx{s}.max(args[0].L[0], args[1].L[0])))
	}
	m["math.Min"] = func(x *Exec, s *State, fn *ssa.Function, args []Val) Val {
		return fltVal(x.nameF(s, fctx{s}.min(args[0].L[0], args[1].L[0])))
	}
	m["math.Ceil"] = func(x *Exec, s *State, fn *ssa.Function, args []Val) Val {
		return fltVal(fctx{s}.ceil(args[0].L[0]))
	}
	m["math.Floor"] = func(x *Exec, s *State, fn *ssa.Function, args []Val) Val {
		return fltVal(fctx{s}.floor(args[0].L[0]))
	}
	m["math.Trunc"] = func(x *Exec, s *State, fn *ssa.Function, args []Val) Val {
		return fltVal(fctx{s}.trunc(args[0].L[0]))
	}
	m["math.Sqrt"] = func(x *Exec, s *State, fn *ssa.Function, args []Val) Val {
		x.usedSqrt = true
		x.note("stub: math.Sqrt axiomatised (A6)")
		return fltVal("(fsqrt " + args[0].L[0] + ")")
	}
	m["math.Log10"] = func(x *Exec, s *State, fn *ssa.Function, args []Val) Val {
		x.usedLog = true
		x.note("stub: math.Log10 axiomatised (A6)")
		return fltVal("(flog10 " + args[0].L[0] + ")")
	}
	m["math.Pow"] = func(x *Exec, s *State, fn *ssa.Function, args []Val) Val {
		if args[1].L[0] == "(fin 2.0)" {
			return fltVal(fctx{s}.mul(args[0].L[0], args[0].L[0]))
		}
		x.note("stub: math.Pow with non-constant exponent is unconstrained")
		return x.freshVal(s, types.Typ[types.Float64], "pow")
	}
	m["math.Abs"] = func(x *Exec, s *State, fn *ssa.Function, args []Val) Val {
		a := args[0].L[0]
		return fltVal("(ite " + fctx{s}.lt(a, "(fin 0.0)") + " " + fctx{s}.neg(a) + " " + a + ")")
	}

	// math/rand
	m["math/rand.Float64"] = func(x *Exec, s *State, fn *ssa.Function, args []Val) Val {
		x.note("stub: math/rand.Float64 in [0,1) (A9)")
		r := x.D.fresh("rand", "Real")
		s.assume("(<= 0.0 " + r + ")")
		s.assume("(< " + r + " 1.0)")
		v := fltVal("(fin " + r + ")")
		s.addEvent(Event{Name: "math/rand.Float64", Res: []Val{v}})
		return v
	}
	m["math/rand.Intn"] = func(x *Exec, s *State, fn *ssa.Function, args []Val) Val {
		x.note("stub: math/rand.Intn(n) in [0,n), panics for n<=0 (A9)")
		if x.checkSafety {
			x.emit(s, "safety", "rand_Intn_positive", x.spec.Safety, "(> "+args[0].L[0]+" 0)", nil)
		}
		s.assume("(> " + args[0].L[0] + " 0)")
		r := x.D.fresh("randn", "Int")
		s.assume("(<= 0 " + r + ")")
		s.assume("(< " + r + " " + args[0].L[0] + ")")
		v := intVal(r)
		s.addEvent(Event{Name: "math/rand.Intn", Args: args, Res: []Val{v}})
		return v
	}

	// time
	m["time.Now"] = func(x *Exec, s *State, fn *ssa.Function, args []Val) Val {
		x.note("stub: time.Now is non-decreasing within one activation (A7)")
		t := x.D.fresh("now", "Int")
		s.assume("(<= 0 " + t + ")")
		s.assume("(<= " + t + " 4611686018427387904)")
		for i := len(s.events) - 1; i >= 0; i-- {
			if s.events[i].Name == "time.Now" {
				s.assume("(<= " + s.events[i].Res[0].L[0] + " " + t + ")")
				break
			}
		}
		v := Val{Typ: fn.Signature.Results().At(0).Type(), L: []string{t}}
		s.addEvent(Event{Name: "time.Now", Res: []Val{v}})
		x.callCount["time.Now"]++
		x.bindCall("time.Now", v)
		return v
	}
	ident := func(x *Exec, s *State, fn *ssa.Function, args []Val) Val {
		return Val{Typ: fn.Signature.Results().At(0).Type(), L: args[0].L}
	}
	m["(time.Time).UnixNano"] = ident
	m["(time.Time).UTC"] = ident
	m["(time.Duration).Nanoseconds"] = ident
	m["(time.Time).After"] = func(x *Exec, s *State, fn *ssa.Function, args []Val) Val {
		return boolVal("(> " + args[0].L[0] + " " + args[1].L[0] + ")")
	}
	m["(time.Time).Before"] = func(x *Exec, s *State, fn *ssa.Function, args []Val) Val {
		return boolVal("(< " + args[0].L[0] + " " + args[1].L[0] + ")")
	}
	m["(time.Time).Sub"] = func(x *Exec, s *State, fn *ssa.Function, args []Val) Val {
		return Val{Typ: fn.Signature.Results().At(0).Type(), L: []string{"(- " + args[0].L[0] + " " + args[1].L[0] + ")"}}
	}
	m["time.NewTimer"] = func(x *Exec, s *State, fn *ssa.Function, args []Val) Val {
		x.note("stub: time.NewTimer (A9)")
		r := x.allocRef(s, "timer")
		c := x.allocRef(s, "timerC")
		tt := fn.Signature.Results().At(0).Type()
		pt := tt.(*types.Pointer)
		st := pt.Elem().Underlying().(*types.Struct)
		for i := 0; i < st.NumFields(); i++ {
			if st.Field(i).Name() == "C" {
				x.heapStore(s, typeKey(pt.Elem())+".C", "Int", r, c)
			}
		}
		v := Val{Typ: tt, L: []string{r}}
		s.addEvent(Event{Name: "time.NewTimer", Args: args, Res: []Val{v}})
		return v
	}
	m["time.NewTicker"] = func(x *Exec, s *State, fn *ssa.Function, args []Val) Val {
		x.note("stub: time.NewTicker (A9)")
		r := x.allocRef(s, "ticker")
		c := x.allocRef(s, "tickerC")
		tt := fn.Signature.Results().At(0).Type()
		pt := tt.(*types.Pointer)
		x.heapStore(s, typeKey(pt.Elem())+".C", "Int", r, c)
		v := Val{Typ: tt, L: []string{r}}
		s.addEvent(Event{Name: "time.NewTicker", Args: args, Res: []Val{v}})
		return v
	}
	m["(*time.Timer).Stop"] = func(x *Exec, s *State, fn *ssa.Function, args []Val) Val {
		s.addEvent(Event{Name: "(*time.Timer).Stop", Recv: &args[0]})
		return boolVal(x.D.fresh("stopped", "Bool"))
	}

	// sync.Cond / WaitGroup
	m["sync.NewCond"] = func(x *Exec, s *State, fn *ssa.Function, args []Val) Val {
		r := x.allocRef(s, "cond")
		return Val{Typ: fn.Signature.Results().At(0).Type(), L: []string{r}}
	}
	ev := func(name string) modelFn {
		return func(x *Exec, s *State, fn *ssa.Function, args []Val) Val {
			x.note("stub: " + name + " recorded as an event (A5)")
			var recv *Val
			if len(args) > 0 {
				recv = &args[0]
			}
			s.addEvent(Event{Name: name, Recv: recv, Args: args})
			return unit()
		}
	}
	for _, n := range []string{"(*sync.Cond).Wait", "(*sync.Cond).Broadcast", "(*sync.Cond).Signal",
		"(*sync.WaitGroup).Add", "(*sync.WaitGroup).Done", "(*sync.WaitGroup).Wait"} {
		m[n] = ev(n)
	}

	// container/list: a trusted stub over ghost state (A9). A list has a member set of element
	// references and a length; every element carries an arrival stamp (PushFront stamps with a
	// value larger than every earlier one), so Front() is the member with the greatest stamp and
	// Back() the one with the least.
	m["container/list.New"] = func(x *Exec, s *State, fn *ssa.Function, args []Val) Val {
		x.note("stub: container/list modelled by ghost members/stamps (A9)")
		l := x.allocRef(s, "list")
		x.heapStore(s, "ghost:list.mem", "(Array Int Bool)", l, "((as const (Array Int Bool)) false)")
		x.heapStore(s, "ghost:list.len", "Int", l, "0")
		x.heapStore(s, "ghost:list.next", "Int", l, "1")
		return Val{Typ: fn.Signature.Results().At(0).Type(), L: []string{l}}
	}
	m["(*container/list.List).PushFront"] = func(x *Exec, s *State, fn *ssa.Function, args []Val) Val {
		l := args[0].L[0]
		x.ownedObjectAccess(s, l, true, "container/list.List.PushFront")
		e := x.allocRef(s, "listelem")
		next := x.heapLoad(s, "ghost:list.next", "Int", l)
		mem := x.heapLoad(s, "ghost:list.mem", "(Array Int Bool)", l)
		ln := x.heapLoad(s, "ghost:list.len", "Int", l)
		// stamps of current members are below next (list invariant, assumed of the library)
		s.assume("(forall ((ee Int)) (=> (select " + mem + " ee) (< (select " + x.heapCur(s, "ghost:list.stamp", "Int") + " ee) " + next + ")))")
		s.assume("(not (select " + mem + " " + e + "))")
		s.assume("(>= " + ln + " 0)")
		x.heapStore(s, "ghost:list.stamp", "Int", e, next)
		x.heapStore(s, "ghost:list.owner", "Int", e, l)
		x.heapStore(s, "ghost:list.next", "Int", l, "(+ "+next+" 1)")
		x.heapStore(s, "ghost:list.mem", "(Array Int Bool)", l, "(store "+mem+" "+e+" true)")
		x.heapStore(s, "ghost:list.len", "Int", l, "(+ "+ln+" 1)")
		// Element.Value
		et := fn.Signature.Results().At(0).Type().(*types.Pointer).Elem()
		x.heapStore(s, typeKey(et)+".Value#t", "Int", e, args[1].L[0])
		x.heapStore(s, typeKey(et)+".Value#v", "Int", e, args[1].L[1])
		v := Val{Typ: fn.Signature.Results().At(0).Type(), L: []string{e}}
		s.addEvent(Event{Name: "(*container/list.List).PushFront", Recv: &args[0], Args: args[1:], Res: []Val{v}})
		return v
	}
	m["(*container/list.List).Remove"] = func(x *Exec, s *State, fn *ssa.Function, args []Val) Val {
		l, e := args[0].L[0], args[1].L[0]
		x.ownedObjectAccess(s, l, true, "container/list.List.Remove")
		mem := x.heapLoad(s, "ghost:list.mem", "(Array Int Bool)", l)
		ln := x.heapLoad(s, "ghost:list.len", "Int", l)
		isMem := "(select " + mem + " " + e + ")"
		x.heapStore(s, "ghost:list.mem", "(Array Int Bool)", l, "(store "+mem+" "+e+" false)")
		x.heapStore(s, "ghost:list.len", "Int", l, sIte(isMem, "(- "+ln+" 1)", ln))
		s.addEvent(Event{Name: "(*container/list.List).Remove", Recv: &args[0], Args: args[1:]})
		return x.freshVal(s, fn.Signature.Results().At(0).Type(), "removed")
	}
	frontBack := func(front bool) modelFn {
		return func(x *Exec, s *State, fn *ssa.Function, args []Val) Val {
			l := args[0].L[0]
			x.ownedObjectAccess(s, l, false, "container/list.List.FrontBack")
			mem := x.heapLoad(s, "ghost:list.mem", "(Array Int Bool)", l)
			ln := x.heapLoad(s, "ghost:list.len", "Int", l)
			st := x.heapCur(s, "ghost:list.stamp", "Int")
			r := x.D.fresh("listend", "Int")
			s.assume("(>= " + ln + " 0)")
			s.assume("(= (= " + r + " 0) (= " + ln + " 0))")
			s.assume("(= (= " + ln + " 0) (forall ((ee Int)) (not (select " + mem + " ee))))")
			cmp := "<="
			if !front {
				cmp = ">="
			}
			s.assume(sImp("(not (= "+r+" 0))", sAnd("(select "+mem+" "+r+")",
				"(forall ((ee Int)) (=> (select "+mem+" ee) ("+cmp+" (select "+st+" ee) (select "+st+" "+r+"))))")))
			s.assume("(not (select " + mem + " 0))")
			return Val{Typ: fn.Signature.Results().At(0).Type(), L: []string{r}}
		}
	}
	m["(*container/list.List).Front"] = frontBack(true)
	m["(*container/list.List).Back"] = frontBack(false)
	m["(*container/list.List).Len"] = func(x *Exec, s *State, fn *ssa.Function, args []Val) Val {
		x.ownedObjectAccess(s, args[0].L[0], false, "container/list.List.Len")
		ln := x.heapLoad(s, "ghost:list.len", "Int", args[0].L[0])
		s.assume("(>= " + ln + " 0)")
		return intVal(ln)
	}

	// fmt / errors / strings
	m["fmt.Sprintf"] = func(x *Exec, s *State, fn *ssa.Function, args []Val) Val {
		return x.freshVal(s, types.Typ[types.String], "sprintf")
	}
	nonNilErr := func(x *Exec, s *State, fn *ssa.Function, args []Val) Val {
		v := x.freshVal(s, fn.Signature.Results().At(0).Type(), "err")
		s.assume("(not (= " + v.L[0] + " 0))")
		s.addEvent(Event{Name: fnName(fn), Args: args, Res: []Val{v}})
		return v
	}
	m["fmt.Errorf"] = nonNilErr
	m["errors.New"] = nonNilErr
	m["google.golang.org/grpc/status.Error"] = func(x *Exec, s *State, fn *ssa.Function, args []Val) Val {
		// status.Error(codes.OK, ...) returns nil; any other code a non-nil error
		v := x.freshVal(s, fn.Signature.Results().At(0).Type(), "statuserr")
		s.assume("(= (= " + v.L[0] + " 0) (= " + args[0].L[0] + " 0))")
		s.addEvent(Event{Name: "status.Error", Args: args, Res: []Val{v}})
		return v
	}
	pureStr := func(name, sig, rsort string, rt types.Type) modelFn {
		return func(x *Exec, s *State, fn *ssa.Function, args []Val) Val {
			x.D.declareFun(name, sig)
			t := "(" + name
			for _, a := range args {
				t += " " + a.L[0]
			}
			t += ")"
			return Val{Typ: rt, L: []string{t}}
		}
	}
	m["strings.HasSuffix"] = pureStr("str_hassuffix", "(Str Str) Bool", "Bool", types.Typ[types.Bool])
	m["strings.HasPrefix"] = pureStr("str_hasprefix", "(Str Str) Bool", "Bool", types.Typ[types.Bool])
	trim := pureStr("str_trimprefix", "(Str Str) Str", "Str", types.Typ[types.String])
	m["strings.TrimPrefix"] = func(x *Exec, s *State, fn *ssa.Function, args []Val) Val {
		v := trim(x, s, fn, args)
		// TrimPrefix(s, p) is s itself when s does not start with p
		x.D.declareFun("str_hasprefix", "(Str Str) Bool")
		s.assume("(=> (not (str_hasprefix " + args[0].L[0] + " " + args[1].L[0] + ")) (= " + v.L[0] + " " + args[0].L[0] + "))")
		return v
	}
	m["strings.ToLower"] = pureStr("str_tolower", "(Str) Str", "Str", types.Typ[types.String])
}

// relyHavoc: between two atomic operations of the function under proof other goroutines may
// change the cell within the declared rely relation (DESIGN §2.8).
func (x *Exec) relyHavoc(s *State, loc *Loc) {
	if !x.relyMode || loc.Kind != LocHeap {
		return
	}
	var ts *TypeSpec
	var field string
	if origin, ok := s.cellOrigin[loc.Base]; ok {
		ts, _, field = x.classify(origin)
	} else {
		ts, _, field = x.classify(loc.Path)
	}
	if ts == nil {
		return
	}
	rel, ok := ts.Rely[field]
	if !ok {
		return
	}
	old := x.loadLoc(s, loc)
	nv := x.freshVal(s, loc.Typ, "rely."+field)
	x.storeLoc(s, loc, nv)
	env := &Env{x: x, s: s, vars: map[string]Val{"old": old, "new": nv}, heap: s.heap, old: s.heap, events: s.events}
	s.assume(env.evalBool(rel))
}

func (x *Exec) atomicAccess(s *State, loc *Loc) {
	x.relyHavoc(s, loc)
	if !x.checkOwn || loc.Kind != LocHeap {
		return
	}
	ts, tn, field := x.classify(loc.Path)
	if ts == nil {
		return
	}
	if ts.Atomic[field] {
		x.emit(s, "owns", shortName(tn)+"."+field, x.spec.Owns, "true", nil)
	} else if _, g := ts.Guarded[field]; g {
		x.checkAccess(s, loc, true, nil)
	}
}

var _ = fmt.Sprint

// ownedObjectAccess: an operation on a library object (container/list) that a contract file
// declares a sub-object of some lock must run with that lock held (exclusively for a mutation).
func (x *Exec) ownedObjectAccess(s *State, ref string, write bool, what string) {
	if !x.checkOwn || x.isFresh(s, ref) {
		return
	}
	lock, ok := s.ownedBy[ref]
	if !ok {
		return
	}
	h, held := s.held[lock]
	goal := "true"
	if !(held && (h.Write || !write)) {
		goal = "false"
	}
	x.emit(s, "owns", what, x.spec.Owns, goal, nil)
}
