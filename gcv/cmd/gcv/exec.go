package main

import (
	"fmt"
	"go/constant"
	"go/token"
	"go/types"
	"math/big"
	"sort"
	"strings"

	"golang.org/x/tools/go/ssa"
)

type Obligation struct {
	Name   string // func/kind:label   (aggregated over paths)
	Func   string
	Kind   string
	Label  string
	Props  []string
	PathID int
	PC     []string
	Goal   string
	DeclText string
	Axioms string
	Final  map[string]string // heap array name -> term at the point of the obligation
	Clause *Clause
	Inputs map[string]Val // parameter / pre-state names for model extraction
	Note   string
	Undecidable string // the clause could not be evaluated (names a function that no longer exists)
	Tainted     string // a contract assumed on this path had a clause that could not be evaluated
	NeedsSqrt, NeedsLog bool
	// results
	Result SolverResult
	File   string
}

type loopInfo struct {
	header  *ssa.BasicBlock
	blocks  map[*ssa.BasicBlock]bool
	ordinal int
}

type unsupportedErr struct{ msg string }

func (e unsupportedErr) Error() string { return e.msg }

func unsupported(f string, a ...interface{}) { panic(unsupportedErr{fmt.Sprintf(f, a...)}) }

// Exec symbolically executes one function against its contract.
type Exec struct {
	P      *Prog
	fn     *ssa.Function
	spec   *FuncSpec
	D      *Decls
	prop   string
	obls   []*Obligation
	loops  map[*ssa.BasicBlock]*loopInfo
	notes  map[string]bool // assumptions / inlined callees / stubs used
	paths  int
	retPaths int
	inputs map[string]Val
	params map[string]Val
	entryHeap map[string]string
	results []Val
	unsupported []string
	checkOwn bool
	checkSafety bool
	run2   bool // second run of a relational product
	usedSqrt, usedLog bool
	maxPaths int
	callCount map[string]int
	binds map[string]Val
	relyMode bool
	resolveCache map[string]*ssa.Function
	relMode bool
	entryHeld map[string]bool
	curOwner *Val
	curInline int
	retHook func(s *State, res []Val)
}

func newExec(p *Prog, fn *ssa.Function, spec *FuncSpec, prop string) *Exec {
	return &Exec{P: p, fn: fn, spec: spec, D: newDecls(), prop: prop, loops: map[*ssa.BasicBlock]*loopInfo{},
		notes: map[string]bool{}, inputs: map[string]Val{}, params: map[string]Val{}, maxPaths: 400, callCount: map[string]int{}, binds: map[string]Val{}}
}

func (x *Exec) note(s string) { x.notes[s] = true }

func hasProp(props []string, p string) bool {
	if p == "" {
		return true
	}
	for _, q := range props {
		if q == p {
			return true
		}
	}
	return false
}

// ---------------------------------------------------------------- heap

func (x *Exec) arrName(path string) string { return sanitize(path) }

func (x *Exec) heapCur(s *State, path, sort string) string {
	n := x.arrName(path)
	if t, ok := s.heap[n]; ok {
		return t
	}
	init := "H0." + n
	x.D.declare(init, "(Array Int "+sort+")")
	s.heap[n] = init
	return init
}

func (x *Exec) heapLoad(s *State, path, sort, idx string) string {
	n := x.arrName(path)
	if c, ok := s.cache[n]; ok {
		if v, ok := c[idx]; ok {
			return v
		}
	}
	return "(select " + x.heapCur(s, path, sort) + " " + idx + ")"
}

// heapStore writes one cell. A per-array cache remembers the last stored (index, value) so a
// following load at the syntactically same index returns the stored term itself; any other
// store to the array invalidates it (sound: stores at other indices may alias).
func (x *Exec) heapStore(s *State, path, sort, idx, val string) {
	cur := x.heapCur(s, path, sort)
	n := x.arrName(path)
	nv := x.D.fresh("H."+n, "(Array Int "+sort+")")
	s.assume("(= " + nv + " (store " + cur + " " + idx + " " + val + "))")
	s.heap[n] = nv
	if s.cache == nil {
		s.cache = map[string]map[string]string{}
	}
	s.cache[n] = map[string]string{idx: val}
}

func (x *Exec) heapHavocAll(s *State, path, sort string) {
	n := x.arrName(path)
	x.heapCur(s, path, sort)
	nv := x.D.fresh("H."+n, "(Array Int "+sort+")")
	s.heap[n] = nv
	delete(s.cache, n)
}

func oldHeapTerm(x *Exec, snap map[string]string, path, sort string) string {
	n := x.arrName(path)
	if t, ok := snap[n]; ok {
		return t
	}
	init := "H0." + n
	x.D.declare(init, "(Array Int "+sort+")")
	return init
}

func (x *Exec) loadLoc(s *State, l *Loc) Val {
	switch l.Kind {
	case LocLocal:
		v := s.top().locals[l.Alloc]
		if l.Path == "" {
			return v
		}
		// sub-range of a local struct
		lo, hi := parseRange(l.Path)
		return Val{Typ: l.Typ, L: append([]string(nil), v.L[lo:hi]...)}
	case LocHeap:
		ls := leavesOf(l.Typ)
		v := Val{Typ: l.Typ, L: make([]string, len(ls))}
		for i, lf := range ls {
			v.L[i] = x.heapLoad(s, l.Path+lf.Suffix, lf.Sort, l.Base)
		}
		x.assumeRanges(s, v)
		// the initial heap is closed: every reference stored in it is nil or allocated
		ls0 := leavesOf(l.Typ)
		for _, i := range refLeaves(l.Typ) {
			init := "(select H0." + x.arrName(l.Path+ls0[i].Suffix) + " " + l.Base + ")"
			if _, declared := x.D.sorts["H0."+x.arrName(l.Path+ls0[i].Suffix)]; !declared {
				continue
			}
			f := "(or (= " + init + " 0) (select Alloc0 " + init + "))"
			if s.ranged == nil {
				s.ranged = map[string]bool{}
			}
			if !s.ranged[f] {
				s.ranged[f] = true
				s.pc = append(s.pc, f)
			}
		}
		if strings.HasPrefix(l.Path, "glob:") {
			x.assumeTableFacts(s, strings.TrimPrefix(l.Path, "glob:"), v)
		}
		if ts, tn, field := x.classify(l.Path); ts != nil {
			if mu, ok := ts.SubObjects[field]; ok && len(v.L) == 1 {
				if s.ownedBy == nil {
					s.ownedBy = map[string]string{}
				}
				s.ownedBy[v.L[0]] = l.Base + "|" + tn + "." + mu
			}
			if ts.AtomicCell[field] && len(v.L) == 1 {
				if s.cellOrigin == nil {
					s.cellOrigin = map[string]string{}
				}
				s.cellOrigin[v.L[0]] = tn + "." + field
			}
			if dt, ok := ts.DynType[field]; ok && len(v.L) == 2 {
				if t, err := x.P.lookupType(dt); err == nil {
					v.L[0] = fmt.Sprint(x.P.typeID(t))
				}
			}
		}
		return v
	case LocElem:
		return Val{Typ: l.Typ, L: l.Elem}
	}
	unsupported("load from location kind %d", l.Kind)
	return Val{}
}

// assumeTableFacts: facts about lookup tables established by table evaluation.
func (x *Exec) assumeTableFacts(s *State, global string, v Val) {
	if len(v.L) != 2 {
		return
	}
	for _, tf := range x.P.specs.Tables {
		if tf.Global != global {
			continue
		}
		key := "table:" + global + ":" + tf.Label
		if s.ranged == nil {
			s.ranged = map[string]bool{}
		}
		if s.ranged[key] {
			continue
		}
		s.ranged[key] = true
		x.D.n++
		q := fmt.Sprintf("q_tbl_%d", x.D.n)
		env := &Env{x: x, s: s, heap: s.heap, old: s.heap, inQuant: true, vars: map[string]Val{
			"i": intVal(q), "v": intVal("(select " + v.L[1] + " " + q + ")"), "n": intVal(v.L[0])}}
		body := env.evalBool(tf.Expr)
		if !mentions(tf.Expr, "i") && !mentions(tf.Expr, "v") {
			s.pc = append(s.pc, body)
			continue
		}
		s.pc = append(s.pc, "(forall (("+q+" Int)) (! (=> (and (<= 0 "+q+") (< "+q+" "+v.L[0]+")) "+body+") :pattern ((select "+v.L[1]+" "+q+"))))")
		x.note("table fact " + global + ":" + tf.Label + " assumed where the table is read (established by table evaluation)")
	}
}

// assumeRanges records the machine-type range of values read from typed memory.
func (x *Exec) assumeRanges(s *State, v Val) {
	for _, f := range typeRangeFacts(v) {
		if s.ranged == nil {
			s.ranged = map[string]bool{}
		}
		if !s.ranged[f] {
			s.ranged[f] = true
			s.pc = append(s.pc, f)
		}
	}
}

func parseRange(p string) (int, int) {
	var lo, hi int
	fmt.Sscanf(p, "%d:%d", &lo, &hi)
	return lo, hi
}

func (x *Exec) storeLoc(s *State, l *Loc, v Val) {
	switch l.Kind {
	case LocLocal:
		if l.Path == "" {
			s.top().locals[l.Alloc] = Val{Typ: l.Typ, L: append([]string(nil), v.L...), Loc: v.Loc, Iter: v.Iter}
			return
		}
		lo, hi := parseRange(l.Path)
		old := s.top().locals[l.Alloc]
		nl := append([]string(nil), old.L...)
		copy(nl[lo:hi], v.L)
		s.top().locals[l.Alloc] = Val{Typ: old.Typ, L: nl}
	case LocHeap:
		ls := leavesOf(l.Typ)
		if len(ls) != len(v.L) {
			unsupported("store leaf mismatch for %s: %d vs %d", l.Path, len(ls), len(v.L))
		}
		for i, lf := range ls {
			x.heapStore(s, l.Path+lf.Suffix, lf.Sort, l.Base, v.L[i])
		}
	default:
		unsupported("store to location kind %d", l.Kind)
	}
}

// toLoc turns a pointer value into a location.
func (x *Exec) toLoc(v Val) *Loc {
	if v.Loc != nil {
		return v.Loc
	}
	pt, ok := types.Unalias(v.Typ).Underlying().(*types.Pointer)
	if !ok || len(v.L) != 1 {
		unsupported("dereference of non-pointer %s", v.Typ)
	}
	return &Loc{Kind: LocHeap, Base: v.L[0], Path: typeKey(pt.Elem()), Typ: pt.Elem()}
}

func (x *Exec) allocRef(s *State, hint string) string {
	r := x.D.fresh("new."+hint, "Int")
	x.D.declare("Alloc0", "(Array Int Bool)")
	s.assume("(not (= " + r + " 0))")
	s.assume("(not (select Alloc0 " + r + "))")
	for _, o := range s.fresh {
		s.assume("(not (= " + r + " " + o + "))")
	}
	s.fresh = append(s.fresh, r)
	return r
}

func (x *Exec) isFresh(s *State, base string) bool {
	for _, f := range s.fresh {
		if f == base {
			return true
		}
	}
	return false
}

// freshVal creates an unconstrained value of a type (with type-range assumptions).
func (x *Exec) freshVal(s *State, t types.Type, hint string) Val {
	ls := leavesOf(t)
	v := Val{Typ: t, L: make([]string, len(ls))}
	for i, lf := range ls {
		v.L[i] = x.D.fresh(hint+lf.Suffix, lf.Sort)
	}
	for _, f := range typeRangeFacts(v) {
		s.assume(f)
	}
	return v
}

// ---------------------------------------------------------------- values

func ratString(r *big.Rat) string {
	neg := r.Sign() < 0
	if neg {
		r = new(big.Rat).Neg(r)
	}
	var t string
	if r.IsInt() {
		t = r.Num().String() + ".0"
	} else {
		t = "(/ " + r.Num().String() + ".0 " + r.Denom().String() + ".0)"
	}
	if neg {
		t = "(- " + t + ")"
	}
	return t
}

func intString(v constant.Value) string {
	s := v.ExactString()
	if strings.HasPrefix(s, "-") {
		return "(- " + s[1:] + ")"
	}
	return s
}

func (x *Exec) constVal(c *ssa.Const) Val {
	t := c.Type()
	if c.Value == nil {
		return zeroVal(t)
	}
	switch {
	case isBool(t):
		if constant.BoolVal(c.Value) {
			return Val{Typ: t, L: []string{"true"}}
		}
		return Val{Typ: t, L: []string{"false"}}
	case isInteger(t):
		v := constant.ToInt(c.Value)
		return Val{Typ: t, L: []string{intString(v)}}
	case isFloat(t):
		v := constant.ToFloat(c.Value)
		r, ok := new(big.Rat).SetString(v.ExactString())
		if !ok {
			unsupported("float constant %s", v.ExactString())
		}
		return Val{Typ: t, L: []string{"(fin " + ratString(r) + ")"}}
	case isString(t):
		return Val{Typ: t, L: []string{x.D.strConst(constant.StringVal(c.Value))}}
	}
	unsupported("constant of type %s", t)
	return Val{}
}

func (x *Exec) val(s *State, v ssa.Value) Val {
	switch v := v.(type) {
	case *ssa.Const:
		return x.constVal(v)
	case *ssa.Function:
		return Val{Typ: v.Type(), L: []string{fmt.Sprint(x.P.fnIDs[v]), "0"}}
	case *ssa.Global:
		pt := v.Type().(*types.Pointer)
		return Val{Typ: v.Type(), Loc: &Loc{Kind: LocHeap, Base: "0", Path: "glob:" + shortPkg(v.Pkg.Pkg) + "." + v.Name(), Typ: pt.Elem()}}
	case *ssa.Builtin:
		unsupported("builtin %s used as value", v.Name())
	}
	if r, ok := s.top().regs[v]; ok {
		return r
	}
	unsupported("no value for %s (%T) in %s", v.Name(), v, x.fn)
	return Val{}
}

// ---------------------------------------------------------------- obligations

func (x *Exec) emit(s *State, kind, label string, props []string, goal string, cl *Clause) {
	if goal == "true" {
		// still recorded: trivially discharged obligations count as generated but need no solver
	}
	fname := fnName(x.fn)
	o := &Obligation{Name: fname + "/" + kind + ":" + label, Func: fname, Kind: kind, Label: label, Props: props,
		PathID: x.paths, PC: append([]string(nil), s.pc...), Goal: goal, Clause: cl, Inputs: x.inputs,
		Note: strings.Join(s.trace, " > "), Tainted: s.tainted}
	if kind == "ensures" || kind == "inv" || kind == "rely" || kind == "safety" {
		o.Final = copyHeap(s.heap)
	}
	x.obls = append(x.obls, o)
}

// ---------------------------------------------------------------- loops

func (x *Exec) findLoops() {
	fn := x.fn
	var headers []*ssa.BasicBlock
	seen := map[*ssa.BasicBlock]bool{}
	for _, b := range fn.Blocks {
		for _, succ := range b.Succs {
			if succ.Dominates(b) && !seen[succ] {
				seen[succ] = true
				headers = append(headers, succ)
			}
		}
	}
	// order loops by source position of the header's first positioned instruction
	pos := func(b *ssa.BasicBlock) token.Pos {
		best := token.NoPos
		var walk func(bb *ssa.BasicBlock)
		visited := map[*ssa.BasicBlock]bool{}
		walk = func(bb *ssa.BasicBlock) {
			if visited[bb] {
				return
			}
			visited[bb] = true
			for _, in := range bb.Instrs {
				if p := in.Pos(); p != token.NoPos && (best == token.NoPos || p < best) {
					best = p
				}
			}
		}
		walk(b)
		for _, p := range b.Preds {
			if b.Dominates(p) {
				walk(p)
			}
		}
		return best
	}
	sort.SliceStable(headers, func(i, j int) bool {
		pi, pj := pos(headers[i]), pos(headers[j])
		if pi == pj {
			return headers[i].Index < headers[j].Index
		}
		return pi < pj
	})
	for i, h := range headers {
		li := &loopInfo{header: h, blocks: map[*ssa.BasicBlock]bool{h: true}, ordinal: i + 1}
		// natural loop: all blocks that reach a back-edge source without passing the header
		var stack []*ssa.BasicBlock
		for _, p := range h.Preds {
			if h.Dominates(p) {
				stack = append(stack, p)
			}
		}
		for len(stack) > 0 {
			b := stack[len(stack)-1]
			stack = stack[:len(stack)-1]
			if li.blocks[b] {
				continue
			}
			li.blocks[b] = true
			stack = append(stack, b.Preds...)
		}
		x.loops[h] = li
	}
}

// ---------------------------------------------------------------- main walk

func (x *Exec) execInstr(s *State, in ssa.Instruction) {
	switch in := in.(type) {
	case *ssa.DebugRef:
	case *ssa.Alloc:
		pt := in.Type().(*types.Pointer)
		elem := pt.Elem()
		_, isArr := elem.Underlying().(*types.Array)
		if !in.Heap || isArr {
			s.top().locals[in] = zeroVal(elem)
			s.top().regs[in] = Val{Typ: in.Type(), Loc: &Loc{Kind: LocLocal, Alloc: in, Typ: elem}}
			return
		}
		r := x.allocRef(s, sanitize(typeKey(elem)))
		loc := &Loc{Kind: LocHeap, Base: r, Path: typeKey(elem), Typ: elem}
		x.storeLoc(s, loc, zeroVal(elem))
		s.top().regs[in] = Val{Typ: in.Type(), L: []string{r}}
	case *ssa.FieldAddr:
		xv := x.val(s, in.X)
		st := structOf(in.X.Type())
		f := st.Field(in.Field)
		var base *Loc
		if xv.Loc != nil {
			base = xv.Loc
		} else {
			if x.checkSafety {
				x.emitNilCheck(s, xv.L[0], in)
			}
			base = x.toLoc(xv)
		}
		switch base.Kind {
		case LocHeap:
			s.top().regs[in] = Val{Typ: in.Type(), Loc: &Loc{Kind: LocHeap, Base: base.Base, Path: base.Path + "." + f.Name(), Typ: f.Type()}}
		case LocLocal:
			blo := 0
			if base.Path != "" {
				blo, _ = parseRange(base.Path)
			}
			lo, hi := fieldRange(st, in.Field)
			s.top().regs[in] = Val{Typ: in.Type(), Loc: &Loc{Kind: LocLocal, Alloc: base.Alloc, Path: fmt.Sprintf("%d:%d", blo+lo, blo+hi), Typ: f.Type()}}
		default:
			unsupported("FieldAddr on location kind %d", base.Kind)
		}
	case *ssa.Field:
		xv := x.val(s, in.X)
		st := structOf(in.X.Type())
		lo, hi := fieldRange(st, in.Field)
		s.top().regs[in] = Val{Typ: in.Type(), L: append([]string(nil), xv.L[lo:hi]...)}
	case *ssa.UnOp:
		x.execUnOp(s, in)
	case *ssa.Store:
		av := x.val(s, in.Addr)
		loc := x.toLoc(av)
		if av.Loc == nil && x.checkSafety {
			x.emitNilCheck(s, av.L[0], in)
		}
		x.checkAccess(s, loc, true, in)
		v := x.val(s, in.Val)
		if v.Loc != nil && loc.Kind != LocLocal {
			unsupported("storing an interior pointer into the heap at %s", x.P.prog.Fset.Position(in.Pos()))
		}
		if loc.Kind == LocHeap && len(v.L) == 2 {
			if ts, _, field := x.classify(loc.Path); ts != nil {
				if dt, ok := ts.DynType[field]; ok {
					if t, err := x.P.lookupType(dt); err == nil {
						x.emit(s, "dyntype", field, nil, sEq(v.L[0], fmt.Sprint(x.P.typeID(t))), nil)
					}
				}
			}
		}
		if loc.Kind == LocArrElem {
			x.storeArrElem(s, loc, v)
		} else {
			x.storeLoc(s, loc, v)
		}
	case *ssa.BinOp:
		s.top().regs[in] = x.binop(s, in.Op, x.val(s, in.X), x.val(s, in.Y), in.Type(), in)
	case *ssa.Convert:
		s.top().regs[in] = x.convert(s, x.val(s, in.X), in.Type(), in)
	case *ssa.ChangeType:
		v := x.val(s, in.X)
		s.top().regs[in] = Val{Typ: in.Type(), L: v.L, Loc: v.Loc}
	case *ssa.ChangeInterface:
		v := x.val(s, in.X)
		s.top().regs[in] = Val{Typ: in.Type(), L: v.L}
	case *ssa.MakeInterface:
		s.top().regs[in] = x.makeInterface(s, x.val(s, in.X), in.Type())
	case *ssa.TypeAssert:
		x.typeAssert(s, in)
	case *ssa.Extract:
		tv := x.val(s, in.Tuple)
		tt := in.Tuple.Type().(*types.Tuple)
		lo := 0
		for i := 0; i < in.Index; i++ {
			lo += len(leavesOf(tt.At(i).Type()))
		}
		n := len(leavesOf(tt.At(in.Index).Type()))
		r := Val{Typ: in.Type(), L: append([]string(nil), tv.L[lo:lo+n]...)}
		s.top().regs[in] = r
	case *ssa.Go:
		var args []Val
		for _, a := range in.Call.Args {
			args = append(args, x.val(s, a))
		}
		name := "go"
		if f, ok := in.Call.Value.(*ssa.Function); ok {
			name = "go " + fnName(f)
		} else if mc, ok := in.Call.Value.(*ssa.MakeClosure); ok {
			name = "go " + fnName(mc.Fn.(*ssa.Function))
		}
		s.addEvent(Event{Name: name, Args: args})
	case *ssa.MakeClosure:
		fn := in.Fn.(*ssa.Function)
		env := x.allocRef(s, "env")
		for i, b := range in.Bindings {
			bv := x.val(s, b)
			if bv.Loc != nil {
				unsupported("closure captures interior pointer")
			}
			for j, lf := range leavesOf(b.Type()) {
				x.heapStore(s, fmt.Sprintf("env:%s.%d%s", fnName(fn), i, lf.Suffix), lf.Sort, env, bv.L[j])
			}
		}
		s.top().regs[in] = Val{Typ: in.Type(), L: []string{fmt.Sprint(x.P.fnIDs[fn]), env}}
	case *ssa.MakeMap:
		mt := in.Type().Underlying().(*types.Map)
		m := x.allocRef(s, "map")
		ks := leavesOf(mt.Key())
		if len(ks) != 1 {
			unsupported("map key type %s", mt.Key())
		}
		x.heapStore(s, mapPath(mt)+"#dom", "(Array "+ks[0].Sort+" Bool)", m, "((as const (Array "+ks[0].Sort+" Bool)) false)")
		x.heapStore(s, mapPath(mt)+"#len", "Int", m, "0")
		s.top().regs[in] = Val{Typ: in.Type(), L: []string{m}}
	case *ssa.MakeChan:
		c := x.allocRef(s, "chan")
		x.heapStore(s, "ghost:chan.cap", "Int", c, x.val(s, in.Size).L[0])
		s.top().regs[in] = Val{Typ: in.Type(), L: []string{c}}
	case *ssa.MakeSlice:
		n := x.val(s, in.Len).L[0]
		st := in.Type().Underlying().(*types.Slice)
		v := Val{Typ: in.Type(), L: []string{n}}
		for _, lf := range leavesOf(st.Elem()) {
			v.L = append(v.L, zeroOfSort("(Array Int "+lf.Sort+")"))
		}
		s.top().regs[in] = v
	case *ssa.Lookup:
		x.lookup(s, in)
	case *ssa.MapUpdate:
		mv := x.val(s, in.Map)
		mt := in.Map.Type().Underlying().(*types.Map)
		k := x.val(s, in.Key).L[0]
		v := x.val(s, in.Value)
		x.mapStore(s, mt, mv.L[0], k, v)
	case *ssa.Range:
		mt, ok := in.X.Type().Underlying().(*types.Map)
		if !ok {
			unsupported("range over %s", in.X.Type())
		}
		mv := x.val(s, in.X)
		ks := leavesOf(mt.Key())
		s.top().regs[in] = Val{Typ: in.Type(), Iter: &mapIter{MapRef: mv.L[0], Visited: "((as const (Array " + ks[0].Sort + " Bool)) false)", KeyT: mt.Key(), ValT: mt.Elem(), MapT: mt}}
	case *ssa.Next:
		x.next(s, in)
	case *ssa.IndexAddr:
		x.indexAddr(s, in)
	case *ssa.Index:
		xv := x.val(s, in.X)
		idx := x.val(s, in.Index).L[0]
		at, ok := in.X.Type().Underlying().(*types.Array)
		if !ok {
			unsupported("index on %s", in.X.Type())
		}
		if x.checkSafety {
			x.emit(s, "safety", "index_in_bounds", x.spec.Safety, sAnd("(<= 0 "+idx+")", fmt.Sprintf("(< %s %d)", idx, at.Len())), nil)
		}
		r := Val{Typ: in.Type()}
		for _, a := range xv.L {
			r.L = append(r.L, "(select "+a+" "+idx+")")
		}
		s.top().regs[in] = r
	case *ssa.Slice:
		x.sliceOp(s, in)
	case *ssa.Select:
		x.selectOp(s, in)
	case *ssa.Send:
		ch := x.val(s, in.Chan)
		v := x.val(s, in.X)
		s.addEvent(Event{Name: "chan.send", Recv: &ch, Args: []Val{v}})
	default:
		unsupported("instruction %T: %s", in, in)
	}
}

func mapPath(mt *types.Map) string {
	return "map:" + typeKey(mt.Key()) + ":" + typeKey(mt.Elem())
}

func (x *Exec) mapDom(s *State, mt *types.Map, m string) string {
	ks := leavesOf(mt.Key())
	return x.heapLoad(s, mapPath(mt)+"#dom", "(Array "+ks[0].Sort+" Bool)", m)
}

func (x *Exec) mapStore(s *State, mt *types.Map, m, k string, v Val) {
	ks := leavesOf(mt.Key())
	ksort := ks[0].Sort
	dom := x.mapDom(s, mt, m)
	oldLen := x.heapLoad(s, mapPath(mt)+"#len", "Int", m)
	x.heapStore(s, mapPath(mt)+"#len", "Int", m, sIte("(select "+dom+" "+k+")", oldLen, "(+ "+oldLen+" 1)"))
	x.heapStore(s, mapPath(mt)+"#dom", "(Array "+ksort+" Bool)", m, "(store "+dom+" "+k+" true)")
	for i, lf := range leavesOf(mt.Elem()) {
		asort := "(Array " + ksort + " " + lf.Sort + ")"
		cur := x.heapLoad(s, mapPath(mt)+"#val"+lf.Suffix, asort, m)
		x.heapStore(s, mapPath(mt)+"#val"+lf.Suffix, asort, m, "(store "+cur+" "+k+" "+v.L[i]+")")
	}
}

func (x *Exec) mapDelete(s *State, mt *types.Map, m, k string) {
	ks := leavesOf(mt.Key())
	ksort := ks[0].Sort
	dom := x.mapDom(s, mt, m)
	oldLen := x.heapLoad(s, mapPath(mt)+"#len", "Int", m)
	x.heapStore(s, mapPath(mt)+"#len", "Int", m, sIte("(select "+dom+" "+k+")", "(- "+oldLen+" 1)", oldLen))
	x.heapStore(s, mapPath(mt)+"#dom", "(Array "+ksort+" Bool)", m, "(store "+dom+" "+k+" false)")
}

func (x *Exec) mapGet(s *State, mt *types.Map, m, k string) (Val, string) {
	ks := leavesOf(mt.Key())
	ksort := ks[0].Sort
	dom := x.mapDom(s, mt, m)
	in := "(select " + dom + " " + k + ")"
	v := Val{Typ: mt.Elem()}
	for _, lf := range leavesOf(mt.Elem()) {
		asort := "(Array " + ksort + " " + lf.Sort + ")"
		cur := x.heapLoad(s, mapPath(mt)+"#val"+lf.Suffix, asort, m)
		v.L = append(v.L, x.nameTerm(s, sIte(in, "(select "+cur+" "+k+")", zeroOfSort(lf.Sort)), lf.Sort, "mapget"))
	}
	return v, in
}

// nameF names a long finite float term: r!k = inner, value (fin r!k).
func (x *Exec) nameF(s *State, term string) string {
	if len(term) < 40 {
		return term
	}
	if inner, ok := (fctx{s}).finInner(term); ok {
		n := x.D.fresh("fr", "Real")
		s.pc = append(s.pc, "(= "+n+" "+inner+")")
		return "(fin " + n + ")"
	}
	n := x.D.fresh("fl", "F")
	s.pc = append(s.pc, "(= "+n+" "+term+")")
	return n
}

// nameTerm binds a compound term to a fresh constant (let-naming keeps obligations small).
func (x *Exec) nameTerm(s *State, term, sort, hint string) string {
	if len(term) < 60 {
		return term
	}
	n := x.D.fresh(hint, sort)
	s.pc = append(s.pc, "(= "+n+" "+term+")")
	return n
}

func (x *Exec) lookup(s *State, in *ssa.Lookup) {
	mt, ok := in.X.Type().Underlying().(*types.Map)
	if !ok {
		unsupported("string indexing")
	}
	mv := x.val(s, in.X)
	k := x.val(s, in.Index).L[0]
	v, dom := x.mapGet(s, mt, mv.L[0], k)
	if in.CommaOk {
		s.top().regs[in] = Val{Typ: in.Type(), L: append(v.L, dom)}
	} else {
		s.top().regs[in] = Val{Typ: in.Type(), L: v.L}
	}
}

func (x *Exec) next(s *State, in *ssa.Next) {
	if in.IsString {
		unsupported("range over string")
	}
	itv := x.val(s, in.Iter)
	it := itv.Iter
	if it == nil {
		unsupported("next on unknown iterator")
	}
	ks := leavesOf(it.KeyT)
	ksort := ks[0].Sort
	k := x.D.fresh("rangekey", ksort)
	ok := x.D.fresh("rangeok", "Bool")
	dom := x.mapDom(s, it.MapT, it.MapRef)
	s.assume(sImp(ok, sAnd("(select "+dom+" "+k+")", "(not (select "+it.Visited+" "+k+"))")))
	qk := x.D.fresh("qk", ksort)
	_ = qk
	s.assume(sImp(sNot(ok), "(forall ((kk "+ksort+")) (=> (select "+dom+" kk) (select "+it.Visited+" kk)))"))
	v, _ := x.mapGet(s, it.MapT, it.MapRef, k)
	nit := *it
	nit.Visited = sIte(ok, "(store "+it.Visited+" "+k+" true)", it.Visited)
	// the iterator register is updated in place (hidden state)
	s.top().regs[in.Iter] = Val{Typ: itv.Typ, Iter: &nit}
	r := Val{Typ: in.Type(), L: []string{ok}}
	tt := in.Type().(*types.Tuple)
	if len(leavesOf(tt.At(1).Type())) > 0 {
		r.L = append(r.L, k)
	}
	if len(leavesOf(tt.At(2).Type())) > 0 {
		r.L = append(r.L, v.L...)
	}
	// tuple leaves must line up with leavesOf(tuple): invalid-typed components have one Int leaf
	r.L = x.fixTuple(tt, ok, k, v)
	s.top().regs[in] = r
}

func (x *Exec) fixTuple(tt *types.Tuple, ok, k string, v Val) []string {
	out := []string{ok}
	n1 := len(leavesOf(tt.At(1).Type()))
	if n1 == 1 {
		// key either used (typed) or unused (invalid type -> Int leaf)
		if b, isB := tt.At(1).Type().(*types.Basic); isB && b.Kind() == types.Invalid {
			out = append(out, "0")
		} else {
			out = append(out, k)
		}
	}
	n2 := len(leavesOf(tt.At(2).Type()))
	if b, isB := tt.At(2).Type().(*types.Basic); isB && b.Kind() == types.Invalid {
		out = append(out, "0")
	} else if n2 == len(v.L) {
		out = append(out, v.L...)
	} else {
		unsupported("range value leaves mismatch")
	}
	return out
}

func (x *Exec) indexAddr(s *State, in *ssa.IndexAddr) {
	xv := x.val(s, in.X)
	idx := x.val(s, in.Index).L[0]
	switch t := in.X.Type().Underlying().(type) {
	case *types.Slice:
		if x.checkSafety {
			x.emit(s, "safety", "index_in_bounds", x.spec.Safety, sAnd("(<= 0 "+idx+")", "(< "+idx+" "+xv.L[0]+")"), nil)
		}
		l := &Loc{Kind: LocElem, Typ: t.Elem()}
		for _, a := range xv.L[1:] {
			l.Elem = append(l.Elem, "(select "+a+" "+idx+")")
		}
		s.top().regs[in] = Val{Typ: in.Type(), Loc: l}
	case *types.Pointer:
		at, ok := t.Elem().Underlying().(*types.Array)
		if !ok || xv.Loc == nil || xv.Loc.Kind != LocLocal {
			unsupported("IndexAddr on %s", in.X.Type())
		}
		_ = at
		// element of a local array: encode the index in Path as "idx:<term>"
		s.top().regs[in] = Val{Typ: in.Type(), Loc: &Loc{Kind: LocArrElem, Alloc: xv.Loc.Alloc, Typ: at.Elem(), Base: idx}}
	default:
		unsupported("IndexAddr on %s", in.X.Type())
	}
}

func (x *Exec) sliceOp(s *State, in *ssa.Slice) {
	xv := x.val(s, in.X)
	if in.Low != nil {
		if c, ok := in.Low.(*ssa.Const); !ok || c.Int64() != 0 {
			unsupported("slice with non-zero low bound")
		}
	}
	switch t := in.X.Type().Underlying().(type) {
	case *types.Slice:
		n := xv.L[0]
		if in.High != nil {
			h := x.val(s, in.High).L[0]
			if x.checkSafety {
				x.emit(s, "safety", "slice_in_bounds", x.spec.Safety, sAnd("(<= 0 "+h+")", "(<= "+h+" "+n+")"), nil)
			}
			n = h
		}
		s.top().regs[in] = Val{Typ: in.Type(), L: append([]string{n}, xv.L[1:]...)}
	case *types.Pointer:
		at, ok := t.Elem().Underlying().(*types.Array)
		if !ok || xv.Loc == nil || xv.Loc.Kind != LocLocal {
			unsupported("slice of %s", in.X.Type())
		}
		arr := s.top().locals[xv.Loc.Alloc]
		n := fmt.Sprint(at.Len())
		if in.High != nil {
			n = x.val(s, in.High).L[0]
		}
		s.top().regs[in] = Val{Typ: in.Type(), L: append([]string{n}, arr.L...)}
	default:
		unsupported("slice of %s", in.X.Type())
	}
}

func (x *Exec) execUnOp(s *State, in *ssa.UnOp) {
	xv := x.val(s, in.X)
	switch in.Op {
	case token.MUL:
		loc := x.toLoc(xv)
		if xv.Loc == nil && x.checkSafety {
			x.emitNilCheck(s, xv.L[0], in)
		}
		if loc.Kind == LocArrElem {
			arr := s.top().locals[loc.Alloc]
			r := Val{Typ: in.Type()}
			for _, a := range arr.L {
				r.L = append(r.L, "(select "+a+" "+loc.Base+")")
			}
			s.top().regs[in] = r
			return
		}
		x.checkAccess(s, loc, false, in)
		s.top().regs[in] = x.loadLoc(s, loc)
		s.top().regs[in] = Val{Typ: in.Type(), L: s.top().regs[in].L, Loc: s.top().regs[in].Loc, Iter: s.top().regs[in].Iter}
	case token.NOT:
		s.top().regs[in] = Val{Typ: in.Type(), L: []string{sNot(xv.L[0])}}
	case token.SUB:
		if isFloat(in.Type()) {
			s.top().regs[in] = Val{Typ: in.Type(), L: []string{fctx{s}.neg(xv.L[0])}}
		} else {
			s.top().regs[in] = Val{Typ: in.Type(), L: []string{wrapFor(in.Type(), "(- "+xv.L[0]+")")}}
		}
	case token.ARROW:
		ct := in.X.Type().Underlying().(*types.Chan)
		v := x.freshVal(s, ct.Elem(), "recv")
		ev := Event{Name: "chan.recv", Recv: &xv, Res: []Val{v}}
		s.addEvent(ev)
		if in.CommaOk {
			ok := x.D.fresh("recvok", "Bool")
			s.top().regs[in] = Val{Typ: in.Type(), L: append(append([]string(nil), v.L...), ok)}
		} else {
			s.top().regs[in] = Val{Typ: in.Type(), L: v.L}
		}
	default:
		unsupported("unary operator %s", in.Op)
	}
}

// store through a local array element
func (x *Exec) storeArrElem(s *State, l *Loc, v Val) {
	arr := s.top().locals[l.Alloc]
	nl := make([]string, len(arr.L))
	for i, a := range arr.L {
		nl[i] = "(store " + a + " " + l.Base + " " + v.L[i] + ")"
	}
	s.top().locals[l.Alloc] = Val{Typ: arr.Typ, L: nl}
}

func (x *Exec) emitNilCheck(s *State, ref string, in ssa.Instruction) {
	if x.isFresh(s, ref) || s.nilChecked[ref] {
		return
	}
	if this, ok := x.params["this"]; ok && len(this.L) == 1 && this.L[0] == ref {
		return
	}
	if s.nilChecked == nil {
		s.nilChecked = map[string]bool{}
	}
	s.nilChecked[ref] = true
	x.emit(s, "safety", "nil_deref", x.spec.Safety, "(not (= "+ref+" 0))", nil)
}

func (x *Exec) binop(s *State, op token.Token, a, b Val, rt types.Type, in ssa.Instruction) Val {
	t := a.Typ
	mk := func(term string) Val { return Val{Typ: rt, L: []string{term}} }
	switch {
	case isFloat(t):
		fc := fctx{s}
		fl := func(term string) Val { return Val{Typ: rt, L: []string{x.nameF(s, term)}} }
		switch op {
		case token.ADD:
			return fl(fc.add(a.L[0], b.L[0]))
		case token.SUB:
			return fl(fc.sub(a.L[0], b.L[0]))
		case token.MUL:
			return fl(fc.mul(a.L[0], b.L[0]))
		case token.QUO:
			return fl(fc.div(a.L[0], b.L[0]))
		case token.LSS:
			return mk(fc.lt(a.L[0], b.L[0]))
		case token.LEQ:
			return mk(fc.le(a.L[0], b.L[0]))
		case token.GTR:
			return mk(fc.lt(b.L[0], a.L[0]))
		case token.GEQ:
			return mk(fc.le(b.L[0], a.L[0]))
		case token.EQL:
			return mk(fc.eq(a.L[0], b.L[0]))
		case token.NEQ:
			return mk(sNot(fc.eq(a.L[0], b.L[0])))
		}
	case isInteger(t):
		switch op {
		case token.ADD:
			return mk(wrapFor(rt, "(+ "+a.L[0]+" "+b.L[0]+")"))
		case token.SUB:
			return mk(wrapFor(rt, "(- "+a.L[0]+" "+b.L[0]+")"))
		case token.MUL:
			return mk(wrapFor(rt, "(* "+a.L[0]+" "+b.L[0]+")"))
		case token.QUO:
			if x.checkSafety {
				x.emit(s, "safety", "div_by_zero", x.spec.Safety, "(not (= "+b.L[0]+" 0))", nil)
			}
			return mk(wrapFor(rt, "(tdiv "+a.L[0]+" "+b.L[0]+")"))
		case token.REM:
			if x.checkSafety {
				x.emit(s, "safety", "div_by_zero", x.spec.Safety, "(not (= "+b.L[0]+" 0))", nil)
			}
			return mk("(tmod " + a.L[0] + " " + b.L[0] + ")")
		case token.LSS:
			return mk("(< " + a.L[0] + " " + b.L[0] + ")")
		case token.LEQ:
			return mk("(<= " + a.L[0] + " " + b.L[0] + ")")
		case token.GTR:
			return mk("(> " + a.L[0] + " " + b.L[0] + ")")
		case token.GEQ:
			return mk("(>= " + a.L[0] + " " + b.L[0] + ")")
		case token.EQL:
			return mk(sEq(a.L[0], b.L[0]))
		case token.NEQ:
			return mk(sNot(sEq(a.L[0], b.L[0])))
		}
	case isBool(t):
		switch op {
		case token.EQL:
			return mk(sEq(a.L[0], b.L[0]))
		case token.NEQ:
			return mk(sNot(sEq(a.L[0], b.L[0])))
		case token.AND, token.LAND:
			return mk(sAnd(a.L[0], b.L[0]))
		case token.OR, token.LOR:
			return mk(sOr(a.L[0], b.L[0]))
		}
	case isString(t):
		switch op {
		case token.EQL:
			return mk(sEq(a.L[0], b.L[0]))
		case token.NEQ:
			return mk(sNot(sEq(a.L[0], b.L[0])))
		case token.ADD:
			x.D.declareFun("str_cat", "(Str Str) Str")
			return mk("(str_cat " + a.L[0] + " " + b.L[0] + ")")
		}
	case isIface(t) || isIface(b.Typ):
		// comparison with nil or another interface: compare dynamic type and payload
		eq := x.ifaceEq(a, b)
		if op == token.EQL {
			return mk(eq)
		} else if op == token.NEQ {
			return mk(sNot(eq))
		}
	case isFunc(t):
		eq := sEq(a.L[0], b.L[0])
		if op == token.EQL {
			return mk(eq)
		} else if op == token.NEQ {
			return mk(sNot(eq))
		}
	case isPointerLike(t):
		if a.Loc != nil || b.Loc != nil {
			unsupported("comparison of interior pointers")
		}
		eq := sEq(a.L[0], b.L[0])
		if op == token.EQL {
			return mk(eq)
		} else if op == token.NEQ {
			return mk(sNot(eq))
		}
	default:
		if _, ok := t.Underlying().(*types.Slice); ok {
			// only comparison with nil is legal
			eq := sEq(a.L[0], "0")
			if len(b.L) > 0 && b.L[0] != "0" {
				eq = sEq(b.L[0], "0")
			}
			x.note("slice==nil is modelled as len==0")
			if op == token.EQL {
				return mk(eq)
			} else if op == token.NEQ {
				return mk(sNot(eq))
			}
		}
	}
	unsupported("binary operator %s on %s", op, t)
	return Val{}
}

func (x *Exec) ifaceEq(a, b Val) string {
	if len(a.L) == 2 && len(b.L) == 2 {
		return sAnd(sEq(a.L[0], b.L[0]), sEq(a.L[1], b.L[1]))
	}
	// one side is a concrete nil
	if len(a.L) == 2 {
		return sEq(a.L[0], "0")
	}
	return sEq(b.L[0], "0")
}

func rangeSubset(from, to types.Type) bool {
	fb, ok1 := from.Underlying().(*types.Basic)
	tb, ok2 := to.Underlying().(*types.Basic)
	if !ok1 || !ok2 {
		return false
	}
	rank := func(k types.BasicKind) (bits int, signed bool) {
		switch k {
		case types.Int8:
			return 8, true
		case types.Int16:
			return 16, true
		case types.Int32:
			return 32, true
		case types.Int, types.Int64:
			return 64, true
		case types.Uint8:
			return 8, false
		case types.Uint16:
			return 16, false
		case types.Uint32:
			return 32, false
		case types.Uint, types.Uint64, types.Uintptr:
			return 64, false
		}
		return 0, true
	}
	fbts, fs := rank(fb.Kind())
	tbts, ts := rank(tb.Kind())
	if fbts == 0 || tbts == 0 {
		return false
	}
	if fs == ts {
		return fbts <= tbts
	}
	if !fs && ts {
		return fbts < tbts
	}
	return false
}

func (x *Exec) convert(s *State, v Val, to types.Type, in ssa.Instruction) Val {
	from := v.Typ
	switch {
	case isInteger(from) && isInteger(to):
		if rangeSubset(from, to) {
			return Val{Typ: to, L: v.L}
		}
		return Val{Typ: to, L: []string{wrapFor(to, v.L[0])}}
	case isInteger(from) && isFloat(to):
		return Val{Typ: to, L: []string{i2fTerm(v.L[0])}}
	case isFloat(from) && isInteger(to):
		lo, hi, _ := intRange(to)
		if x.checkSafety {
			fc := fctx{s}
			goal := sAnd(fc.isfin(v.L[0]), "(<= "+lo+" "+fc.f2i(v.L[0])+")", "(<= "+fc.f2i(v.L[0])+" "+hi+")")
			x.emit(s, "safety", "float_to_int_defined", x.spec.Safety, goal, nil)
		}
		// amd64 semantics for the undefined cases: the "integer indefinite" value
		fc := fctx{s}
		r := x.D.fresh("f2i", "Int")
		inr := sAnd(fc.isfin(v.L[0]), "(<= "+lo+" "+fc.f2i(v.L[0])+")", "(<= "+fc.f2i(v.L[0])+" "+hi+")")
		s.assume("(= " + r + " " + sIte(inr, fc.f2i(v.L[0]), lo) + ")")
		return Val{Typ: to, L: []string{r}}
	case isFloat(from) && isFloat(to):
		return Val{Typ: to, L: v.L}
	case isString(from) && isString(to):
		return Val{Typ: to, L: v.L}
	}
	if types.Identical(from.Underlying(), to.Underlying()) {
		return Val{Typ: to, L: v.L, Loc: v.Loc}
	}
	unsupported("conversion %s -> %s", from, to)
	return Val{}
}

func (x *Exec) makeInterface(s *State, v Val, it types.Type) Val {
	id := fmt.Sprint(x.P.typeID(v.Typ))
	ls := leavesOf(v.Typ)
	payload := "0"
	switch {
	case len(ls) == 1 && ls[0].Sort == "Int" && v.Loc == nil:
		payload = v.L[0]
	case len(ls) == 1 && ls[0].Sort == "Str":
		x.D.declareFun("box_str", "(Str) Int")
		payload = "(box_str " + v.L[0] + ")"
	case len(ls) == 0:
		payload = "0"
	default:
		payload = x.D.fresh("box", "Int")
	}
	return Val{Typ: it, L: []string{id, payload}}
}

func (x *Exec) typeAssert(s *State, in *ssa.TypeAssert) {
	v := x.val(s, in.X)
	var ok string
	var res Val
	if isIface(in.AssertedType) {
		okc := x.D.fresh("implements", "Bool")
		s.assume(sImp(okc, sNot(sEq(v.L[0], "0"))))
		if it, isI := in.AssertedType.Underlying().(*types.Interface); isI && it.NumMethods() == 0 {
			s.assume(sEq(okc, sNot(sEq(v.L[0], "0"))))
		}
		ok = okc
		res = Val{Typ: in.AssertedType, L: []string{sIte(ok, v.L[0], "0"), sIte(ok, v.L[1], "0")}}
	} else {
		id := fmt.Sprint(x.P.typeID(in.AssertedType))
		ok = sEq(v.L[0], id)
		ls := leavesOf(in.AssertedType)
		switch {
		case len(ls) == 1 && ls[0].Sort == "Int":
			res = Val{Typ: in.AssertedType, L: []string{sIte(ok, v.L[1], "0")}}
		case len(ls) == 1 && ls[0].Sort == "Str":
			x.D.declareFun("unbox_str", "(Int) Str")
			res = Val{Typ: in.AssertedType, L: []string{sIte(ok, "(unbox_str "+v.L[1]+")", "str_empty")}}
		case len(ls) == 0:
			res = Val{Typ: in.AssertedType}
		default:
			res = x.freshVal(s, in.AssertedType, "unbox")
		}
	}
	if in.CommaOk {
		s.top().regs[in] = Val{Typ: in.Type(), L: append(append([]string(nil), res.L...), ok)}
		return
	}
	if x.checkSafety {
		x.emit(s, "safety", "type_assert", x.spec.Safety, ok, nil)
	}
	s.assume(ok)
	s.top().regs[in] = res
}

func (x *Exec) selectOp(s *State, in *ssa.Select) {
	// Nondeterministic choice over the cases (DESIGN §2.8): result index is a fresh Int in range.
	idx := x.D.fresh("select", "Int")
	n := len(in.States)
	lo := "0"
	if !in.Blocking {
		lo = "(- 1)"
	}
	s.assume("(<= " + lo + " " + idx + ")")
	s.assume(fmt.Sprintf("(< %s %d)", idx, n))
	for i, st := range in.States {
		// a nil channel is never ready
		ch := x.val(s, st.Chan)
		s.assume(sImp(fmt.Sprintf("(= %s %d)", idx, i), sNot(sEq(ch.L[0], "0"))))
	}
	r := Val{Typ: in.Type(), L: []string{idx, x.D.fresh("recvok", "Bool")}}
	ev := Event{Name: "select", Res: []Val{{Typ: types.Typ[types.Int], L: []string{idx}}}}
	for i, st := range in.States {
		ch := x.val(s, st.Chan)
		ev.Args = append(ev.Args, ch)
		if st.Dir == types.RecvOnly {
			ct := st.Chan.Type().Underlying().(*types.Chan)
			v := x.freshVal(s, ct.Elem(), fmt.Sprintf("selrecv%d", i))
			r.L = append(r.L, v.L...)
			// the value a receive case would deliver is result 1, 2, ... of the select event (in
			// case order, receive cases only); result 0 is the index of the case that fired
			ev.Res = append(ev.Res, v)
		} else {
			sv := x.val(s, st.Send)
			ev.Args = append(ev.Args, sv)
		}
	}
	s.addEvent(ev)
	s.top().regs[in] = r
}
