package main

import (
	"fmt"
	"go/types"
	"strings"

	"golang.org/x/tools/go/ssa"
)

// A Val is a flattened symbolic Go value: one SMT term per leaf of its type (see leavesOf).
// Addresses that exist only on the Go side of the executor (field addresses, locals,
// slice elements, globals) are carried in Loc with no leaves.
type Val struct {
	Typ types.Type
	L   []string
	Loc *Loc
	// Iter is set for the hidden iterator of a map range.
	Iter *mapIter
}

type LocKind int

const (
	LocLocal LocKind = iota
	LocHeap          // Base ref into per-field arrays named Path+suffix
	LocElem          // element of a slice value (read-only)
	LocGlobal
	LocArrElem       // element Base of the local array Alloc
)

type Loc struct {
	Kind  LocKind
	Alloc *ssa.Alloc
	Base  string
	Path  string
	Typ   types.Type // pointee type
	Elem  []string   // LocElem: the element's leaves, already selected
	Glob  *ssa.Global
}

func (l *Loc) key() string {
	switch l.Kind {
	case LocHeap:
		return l.Base + "|" + l.Path
	case LocLocal:
		return fmt.Sprintf("local|%p", l.Alloc)
	case LocGlobal:
		return "glob|" + l.Glob.String()
	}
	return "elem"
}

type leaf struct {
	Suffix string
	Sort   string
}

const modulePath = "github.com/platinummonkey/go-concurrency-limits"

func shortPkg(p *types.Package) string {
	if p == nil {
		return ""
	}
	s := p.Path()
	if strings.HasPrefix(s, modulePath+"/") {
		return strings.TrimPrefix(s, modulePath+"/")
	}
	if s == modulePath {
		return "root"
	}
	return s
}

// typeKey names a type for heap-array naming and dynamic type ids.
func typeKey(t types.Type) string {
	switch t := t.(type) {
	case *types.Named:
		o := t.Obj()
		if o.Pkg() == nil {
			return o.Name()
		}
		return shortPkg(o.Pkg()) + "." + o.Name()
	case *types.Pointer:
		return "*" + typeKey(t.Elem())
	case *types.Alias:
		return typeKey(types.Unalias(t))
	}
	return types.TypeString(t, func(p *types.Package) string { return shortPkg(p) })
}

func inRepo(t types.Type) bool {
	if n, ok := t.(*types.Named); ok && n.Obj().Pkg() != nil {
		return strings.HasPrefix(n.Obj().Pkg().Path(), modulePath)
	}
	return false
}

var leafCache = map[types.Type][]leaf{}

// leavesOf flattens a Go type into SMT leaves (DESIGN §2.5).
func leavesOf(t types.Type) []leaf {
	if ls, ok := leafCache[t]; ok {
		return ls
	}
	ls := computeLeaves(t)
	leafCache[t] = ls
	return ls
}

func computeLeaves(t types.Type) []leaf {
	t = types.Unalias(t)
	if n, ok := t.(*types.Named); ok {
		k := typeKey(n)
		switch k {
		case "time.Time":
			return []leaf{{"", "Int"}}
		}
		if _, isStruct := n.Underlying().(*types.Struct); isStruct && !inRepo(n) {
			// opaque library struct (sync.Mutex, sync.WaitGroup, list.List, ...)
			return nil
		}
	}
	switch u := t.Underlying().(type) {
	case *types.Basic:
		info := u.Info()
		switch {
		case info&types.IsBoolean != 0:
			return []leaf{{"", "Bool"}}
		case info&types.IsInteger != 0:
			return []leaf{{"", "Int"}}
		case info&types.IsFloat != 0:
			return []leaf{{"", "F"}}
		case info&types.IsString != 0:
			return []leaf{{"", "Str"}}
		case u.Kind() == types.UnsafePointer:
			return []leaf{{"", "Int"}}
		case u.Kind() == types.UntypedNil:
			return []leaf{{"", "Int"}}
		}
		return []leaf{{"", "Int"}}
	case *types.Pointer, *types.Map, *types.Chan:
		return []leaf{{"", "Int"}}
	case *types.Interface:
		return []leaf{{"#t", "Int"}, {"#v", "Int"}}
	case *types.Signature:
		return []leaf{{"#c", "Int"}, {"#e", "Int"}}
	case *types.Slice:
		ls := []leaf{{"#len", "Int"}}
		for _, e := range leavesOf(u.Elem()) {
			ls = append(ls, leaf{"#a" + e.Suffix, "(Array Int " + e.Sort + ")"})
		}
		return ls
	case *types.Struct:
		var ls []leaf
		for i := 0; i < u.NumFields(); i++ {
			f := u.Field(i)
			for _, e := range leavesOf(f.Type()) {
				ls = append(ls, leaf{"." + f.Name() + e.Suffix, e.Sort})
			}
		}
		return ls
	case *types.Tuple:
		var ls []leaf
		for i := 0; i < u.Len(); i++ {
			for _, e := range leavesOf(u.At(i).Type()) {
				ls = append(ls, leaf{fmt.Sprintf("#%d%s", i, e.Suffix), e.Sort})
			}
		}
		return ls
	case *types.Array:
		// modelled like a slice without length
		var ls []leaf
		for _, e := range leavesOf(u.Elem()) {
			ls = append(ls, leaf{"#a" + e.Suffix, "(Array Int " + e.Sort + ")"})
		}
		return ls
	}
	return []leaf{{"", "Int"}}
}

func zeroOfSort(sort string) string {
	switch sort {
	case "Int":
		return "0"
	case "Bool":
		return "false"
	case "F":
		return "(fin 0.0)"
	case "Str":
		return "str_empty"
	}
	if strings.HasPrefix(sort, "(Array Int ") {
		inner := strings.TrimSuffix(strings.TrimPrefix(sort, "(Array Int "), ")")
		return "((as const " + sort + ") " + zeroOfSort(inner) + ")"
	}
	panic("zeroOfSort: " + sort)
}

func zeroVal(t types.Type) Val {
	ls := leavesOf(t)
	v := Val{Typ: t, L: make([]string, len(ls))}
	for i, l := range ls {
		v.L[i] = zeroOfSort(l.Sort)
	}
	return v
}

// fieldRange returns the [lo,hi) leaf index range of struct field i.
func fieldRange(st *types.Struct, idx int) (int, int) {
	lo := 0
	for i := 0; i < idx; i++ {
		lo += len(leavesOf(st.Field(i).Type()))
	}
	return lo, lo + len(leavesOf(st.Field(idx).Type()))
}

func structOf(t types.Type) *types.Struct {
	t = types.Unalias(t)
	if p, ok := t.Underlying().(*types.Pointer); ok {
		t = p.Elem()
	}
	st, _ := t.Underlying().(*types.Struct)
	return st
}

func isFloat(t types.Type) bool {
	b, ok := t.Underlying().(*types.Basic)
	return ok && b.Info()&types.IsFloat != 0
}
func isInteger(t types.Type) bool {
	b, ok := t.Underlying().(*types.Basic)
	return ok && b.Info()&types.IsInteger != 0
}
func isBool(t types.Type) bool {
	b, ok := t.Underlying().(*types.Basic)
	return ok && b.Info()&types.IsBoolean != 0
}
func isString(t types.Type) bool {
	b, ok := t.Underlying().(*types.Basic)
	return ok && b.Info()&types.IsString != 0
}
func isIface(t types.Type) bool {
	_, ok := t.Underlying().(*types.Interface)
	return ok
}
func isFunc(t types.Type) bool {
	_, ok := t.Underlying().(*types.Signature)
	return ok
}
func isPointerLike(t types.Type) bool {
	switch t.Underlying().(type) {
	case *types.Pointer, *types.Map, *types.Chan:
		return true
	}
	return false
}

// intRange returns the SMT bounds of an integer type.
func intRange(t types.Type) (string, string, bool) {
	b, ok := t.Underlying().(*types.Basic)
	if !ok || b.Info()&types.IsInteger == 0 {
		return "", "", false
	}
	switch b.Kind() {
	case types.Int, types.Int64:
		return "(- 9223372036854775808)", "9223372036854775807", true
	case types.Int32:
		return "(- 2147483648)", "2147483647", true
	case types.Int16:
		return "(- 32768)", "32767", true
	case types.Int8:
		return "(- 128)", "127", true
	case types.Uint, types.Uint64, types.Uintptr:
		return "0", "18446744073709551615", true
	case types.Uint32:
		return "0", "4294967295", true
	case types.Uint16:
		return "0", "65535", true
	case types.Uint8:
		return "0", "255", true
	}
	return "", "", false
}

func wrapFor(t types.Type, x string) string {
	b, ok := t.Underlying().(*types.Basic)
	if !ok {
		return x
	}
	switch b.Kind() {
	case types.Int, types.Int64:
		return "(wrap64 " + x + ")"
	case types.Int32:
		return "(wrap32 " + x + ")"
	case types.Uint, types.Uint64, types.Uintptr:
		return "(wrapu64 " + x + ")"
	case types.Uint32:
		return "(wrapu32 " + x + ")"
	case types.Uint8:
		return "(wrapu8 " + x + ")"
	}
	return x
}

// typeRangeFacts returns assumptions that every value of the type satisfies.
func typeRangeFacts(v Val) []string {
	var out []string
	ls := leavesOf(v.Typ)
	if len(ls) != len(v.L) {
		return nil
	}
	collectRanges(v.Typ, v.L, &out)
	return out
}

func collectRanges(t types.Type, L []string, out *[]string) {
	t = types.Unalias(t)
	if typeKey(t) == "time.Time" {
		return
	}
	if lo, hi, ok := intRange(t); ok && len(L) == 1 {
		*out = append(*out, "(<= "+lo+" "+L[0]+")", "(<= "+L[0]+" "+hi+")")
		return
	}
	switch u := t.Underlying().(type) {
	case *types.Interface:
		if len(L) == 2 {
			// the nil interface has no payload
			*out = append(*out, "(=> (= "+L[0]+" 0) (= "+L[1]+" 0))")
		}
	case *types.Signature:
		if len(L) == 2 {
			*out = append(*out, "(=> (= "+L[0]+" 0) (= "+L[1]+" 0))")
		}
	case *types.Struct:
		if len(leavesOf(t)) == 0 {
			return
		}
		off := 0
		for i := 0; i < u.NumFields(); i++ {
			n := len(leavesOf(u.Field(i).Type()))
			collectRanges(u.Field(i).Type(), L[off:off+n], out)
			off += n
		}
	case *types.Slice:
		*out = append(*out, "(<= 0 "+L[0]+")", "(<= "+L[0]+" 4611686018427387904)")
	case *types.Tuple:
		off := 0
		for i := 0; i < u.Len(); i++ {
			n := len(leavesOf(u.At(i).Type()))
			collectRanges(u.At(i).Type(), L[off:off+n], out)
			off += n
		}
	}
}

// refLeaves returns the indices of the leaves of t that hold object references.
func refLeaves(t types.Type) []int {
	var out []int
	var walk func(t types.Type, off int) int
	walk = func(t types.Type, off int) int {
		t = types.Unalias(t)
		n := len(leavesOf(t))
		if typeKey(t) == "time.Time" {
			return n
		}
		switch u := t.Underlying().(type) {
		case *types.Pointer, *types.Map, *types.Chan:
			if n == 1 {
				out = append(out, off)
			}
		case *types.Interface, *types.Signature:
			if n == 2 {
				out = append(out, off+1)
			}
		case *types.Struct:
			if n > 0 {
				o := off
				for i := 0; i < u.NumFields(); i++ {
					o += walk(u.Field(i).Type(), o)
				}
			}
		case *types.Tuple:
			o := off
			for i := 0; i < u.Len(); i++ {
				o += walk(u.At(i).Type(), o)
			}
		}
		return n
	}
	walk(t, 0)
	return out
}
