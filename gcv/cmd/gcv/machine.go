package main

import (
	"encoding/json"
	"os"
	"runtime"
	"path/filepath"
	"fmt"
	"go/token"
	"go/types"
	"strconv"
	"strings"

	"golang.org/x/tools/go/ssa"
)

// ---------------------------------------------------------------- driver for one function

func (x *Exec) newFrame(fn *ssa.Function) *Frame {
	return &Frame{fn: fn, block: fn.Blocks[0], regs: map[ssa.Value]Val{}, locals: map[*ssa.Alloc]Val{}}
}

func resultNames(fn *ssa.Function) []string {
	var names []string
	res := fn.Signature.Results()
	for i := 0; i < res.Len(); i++ {
		n := res.At(i).Name()
		if n == "" || n == "_" {
			n = fmt.Sprintf("ret%d", i)
		}
		names = append(names, n)
	}
	return names
}

// initState builds the symbolic entry state of the function under proof.
func (x *Exec) initState(suffix string) *State {
	s := &State{heap: map[string]string{}, held: map[string]heldLock{}, lockedOnce: map[string]bool{}}
	s.finCount = new(int)
	s.declare = x.D.declare
	f := x.newFrame(x.fn)
	s.frames = []*Frame{f}
	x.D.declare("Alloc0", "(Array Int Bool)")
	for i, p := range x.fn.Params {
		name := p.Name()
		if name == "" || name == "_" {
			name = fmt.Sprintf("arg%d", i)
		}
		v := x.freshVal(s, p.Type(), "p."+name+suffix)
		f.regs[p] = v
		x.params[name] = v
		x.inputs[name] = v
		if old := baselineParamName(fnName(x.fn), i); old != "" && old != name {
			if _, clash := x.params[old]; !clash {
				x.params[old] = v
				x.note("parameter " + old + " of " + fnName(x.fn) + " was renamed to " + name + "; contracts keep using the baseline name")
			}
		}
		if x.fn.Signature.Recv() != nil && i == 0 {
			x.params["this"] = v
			if isPointerLike(p.Type()) && !x.spec.NilReceiver {
				s.assume("(not (= " + v.L[0] + " 0))")
			}
		}
		if isPointerLike(p.Type()) && len(v.L) == 1 {
			s.assume(sOr("(= "+v.L[0]+" 0)", "(select Alloc0 "+v.L[0]+")"))
		}
		if isIface(p.Type()) {
			s.assume(sOr("(= "+v.L[1]+" 0)", "(select Alloc0 "+v.L[1]+")"))
		}
	}
	if len(x.fn.FreeVars) > 0 {
		env := x.D.fresh("env"+suffix, "Int")
		s.assume("(select Alloc0 " + env + ")")
		x.params["#env"] = Val{Typ: types.Typ[types.UnsafePointer], L: []string{env}}
		for i, fv := range x.fn.FreeVars {
			v := Val{Typ: fv.Type()}
			for _, lf := range leavesOf(fv.Type()) {
				v.L = append(v.L, x.heapLoad(s, fmt.Sprintf("env:%s.%d%s", fnName(x.fn), i, lf.Suffix), lf.Sort, env))
			}
			for _, fct := range typeRangeFacts(v) {
				s.assume(fct)
			}
			f.regs[fv] = v
			// a renamed captured variable keeps answering to the name it had when the baseline was
			// accepted (contracts of closures name their captured variables)
			aliases := []string{fv.Name()}
			if olds, ok := baselineParamsOf(fnName(x.fn) + "#free"); ok && i < len(olds) && olds[i] != fv.Name() {
				if _, clash := x.params[olds[i]]; !clash {
					aliases = append(aliases, olds[i])
					x.note("captured variable " + olds[i] + " of " + fnName(x.fn) + " was renamed to " + fv.Name() + "; contracts keep using the baseline name")
				}
			}
			// the captured variable: a pointer to a cell (captured by reference) or the value itself
			x.params["&"+fv.Name()] = v
			if pt, ok := fv.Type().(*types.Pointer); ok {
				s.assume("(select Alloc0 " + v.L[0] + ")")
				s.assume("(not (= " + v.L[0] + " 0))")
				cell := x.loadLoc(s, &Loc{Kind: LocHeap, Base: v.L[0], Path: typeKey(pt.Elem()), Typ: pt.Elem()})
				for _, a := range aliases {
					x.params[a] = cell
					x.params["&"+a] = v
				}
				x.inputs[fv.Name()] = cell
			} else {
				for _, a := range aliases {
					x.params[a] = v
					x.params["&"+a] = v
				}
				x.inputs[fv.Name()] = v
			}
		}
	}
	return s
}

func (x *Exec) specEnv(s *State, old map[string]string, extra map[string]Val) *Env {
	vars := map[string]Val{}
	for k, v := range x.params {
		vars[k] = v
	}
	for k, v := range x.binds {
		vars[k] = v
	}
	for k, v := range extra {
		vars[k] = v
	}
	return &Env{x: x, s: s, vars: vars, heap: s.heap, old: old, events: s.events}
}

type verifyResult struct {
	Obls        []*Obligation
	Notes       []string
	Unsupported string
	Paths       int
	RetPaths    int
}

func (x *Exec) verify() (res verifyResult) {
	defer func() {
		if r := recover(); r != nil {
			switch e := r.(type) {
			case unsupportedErr:
				res.Unsupported = e.msg
			case specErr:
				res.Unsupported = "spec error: " + e.msg
			case runtime.Error:
				// an engine fault on this function's current body: reported like any other body the
				// engine cannot follow (the function's /supported obligation), never a silent abort
				if os.Getenv("GCV_PANIC") != "" {
					panic(r)
				}
				res.Unsupported = "engine error: " + e.Error()
			default:
				panic(r)
			}
		}
		res.Obls = x.obls
		for n := range x.notes {
			res.Notes = append(res.Notes, n)
		}
		res.Paths = x.paths
		res.RetPaths = x.retPaths
		decl := x.D.text()
		for _, o := range x.obls {
			o.DeclText = decl
			o.NeedsSqrt = x.usedSqrt
			o.NeedsLog = x.usedLog
		}
	}()
	if len(x.fn.Blocks) == 0 {
		unsupported("function %s has no body", x.fn)
	}
	x.findLoops()
	x.checkOwn = len(x.spec.Owns) > 0
	x.checkSafety = len(x.spec.Safety) > 0 && (x.prop == "" || hasProp(x.spec.Safety, x.prop))
	s := x.initState("")
	env := x.specEnv(s, s.heap, nil)
	for _, m := range x.spec.Maintains {
		v := env.eval(mustParse(m.Text))
		s.assume(env.invOf(v, ""))
	}
	if len(x.spec.Refines) > 0 {
		x.checkRefinesPre(s)
	}
	env.assumeHeld = true
	for _, c := range x.spec.Requires {
		s.assume(env.evalBool(c.Expr))
	}
	env.assumeHeld = false
	x.entryHeld = map[string]bool{}
	for k := range s.held {
		x.entryHeld[k] = true
	}
	x.entryHeap = copyHeap(s.heap)
	// vacuity guard: the precondition must be satisfiable
	x.obls = append(x.obls, &Obligation{Name: fnName(x.fn) + "/vacuity:pre_satisfiable", Func: fnName(x.fn), Kind: "vacuity", Label: "pre_satisfiable",
		PC: append([]string(nil), s.pc...), Goal: "false", Inputs: x.inputs})
	x.run(s)
	return
}

// coverClauses (thorough tier): emit a cover query for the hypothesis of every implication-shaped
// postcondition.
var coverClauses bool

// conformMode: emit one replayable pseudo-obligation per return path (gcv conform).
var conformMode bool

// evalClause evaluates a clause; a reference to a function that no longer exists makes the clause
// undecidable (reason returned) instead of aborting the whole function.
func evalClause(env *Env, e *SExpr) (goal string, undecidable string) {
	defer func() {
		if r := recover(); r != nil {
			if u, ok := r.(undecidableErr); ok {
				undecidable = u.msg
				return
			}
			panic(r)
		}
	}()
	return env.evalBool(e), ""
}

func mustParse(s string) *SExpr {
	e, err := parseSpecExpr(s)
	if err != nil {
		specFail("%v", err)
	}
	return e
}

// ---------------------------------------------------------------- the machine

func (x *Exec) run(s *State) {
	for !s.dead && len(s.frames) > 0 {
		if x.paths > x.maxPaths {
			unsupported("path limit exceeded in %s", x.fn)
		}
		f := s.top()
		if !f.entered {
			f.entered = true
			if li, ok := x.loops[f.block]; ok && f.fn == x.fn {
				if len(s.frames) > 1 {
					unsupported("loop reached inside nested frame")
				}
				backEdge := f.prev != nil && li.blocks[f.prev] && f.block.Dominates(f.prev)
				if x.handleLoopHeader(s, f, li, backEdge) {
					return
				}
				continue
			} else if f.fn != x.fn && x.isLoopHeader(f.block) {
				unsupported("inlined callee %s contains a loop; give it a contract", fnName(f.fn))
			}
			// parallel phi assignment
			var phis []*ssa.Phi
			var vals []Val
			for _, in := range f.block.Instrs {
				phi, ok := in.(*ssa.Phi)
				if !ok {
					break
				}
				idx := -1
				for i, p := range f.block.Preds {
					if p == f.prev {
						idx = i
					}
				}
				if idx < 0 {
					unsupported("phi without matching predecessor in %s", fnName(f.fn))
				}
				phis = append(phis, phi)
				vals = append(vals, x.val(s, phi.Edges[idx]))
			}
			for i, phi := range phis {
				f.regs[phi] = vals[i]
			}
			f.idx = len(phis)
		}
		in := f.block.Instrs[f.idx]
		switch in := in.(type) {
		case *ssa.If:
			c := x.val(s, in.Cond).L[0]
			if c == "true" {
				f.jump(f.block.Succs[0])
				continue
			}
			if c == "false" {
				f.jump(f.block.Succs[1])
				continue
			}
			if x.tryMerge(s, f, c) {
				continue
			}
			t := s.clone()
			t.assume(c)
			t.top().jump(f.block.Succs[0])
			x.run(t)
			s.assume(sNot(c))
			f.jump(f.block.Succs[1])
		case *ssa.Jump:
			f.jump(f.block.Succs[0])
		case *ssa.Return:
			var res []Val
			for _, r := range in.Results {
				res = append(res, x.val(s, r))
			}
			if len(s.frames) == 1 {
				x.paths++
				x.retPaths++
				if x.retHook != nil {
					x.retHook(s, res)
				} else {
					x.checkPost(s, res)
				}
				return
			}
			s.frames = s.frames[:len(s.frames)-1]
			caller := s.top()
			if f.retTo != nil {
				tv := Val{Typ: f.retTo.Type()}
				for _, r := range res {
					if r.Loc != nil || r.Iter != nil {
						tv = r
						break
					}
					tv.L = append(tv.L, r.L...)
				}
				if len(res) == 1 {
					tv.Typ = res[0].Typ
					tv.Typ = f.retTo.Type()
				}
				caller.regs[f.retTo] = tv
			}
			if f.retAdvance {
				caller.idx++
			}
		case *ssa.Panic:
			x.paths++
			if x.checkSafety {
				x.emit(s, "safety", "no_panic", x.spec.Safety, "false", nil)
			}
			return
		case *ssa.RunDefers:
			if len(f.defers) == 0 {
				f.idx++
				continue
			}
			d := f.defers[len(f.defers)-1]
			f.defers = f.defers[:len(f.defers)-1]
			var fnv *Val
			if d.fn.Typ != nil {
				fnv = &d.fn
			}
			x.callWith(s, d.call, d.args, fnv, nil, false, d.pos)
		case *ssa.Defer:
			d := deferred{call: &in.Call, pos: x.P.prog.Fset.Position(in.Pos()).String()}
			for _, a := range in.Call.Args {
				d.args = append(d.args, x.val(s, a))
			}
			switch in.Call.Value.(type) {
			case *ssa.Function, *ssa.Builtin:
			default:
				d.fn = x.val(s, in.Call.Value)
			}
			f.defers = append(f.defers, d)
			f.idx++
		case *ssa.Call:
			var args []Val
			for _, a := range in.Call.Args {
				args = append(args, x.val(s, a))
			}
			pushed := x.callWith(s, &in.Call, args, nil, in, true, x.P.prog.Fset.Position(in.Pos()).String())
			if !pushed && !s.dead {
				f.idx++
			}
		default:
			x.execInstr(s, in)
			f.idx++
		}
	}
}

func (x *Exec) isLoopHeader(b *ssa.BasicBlock) bool {
	for _, p := range b.Preds {
		if b.Dominates(p) {
			return true
		}
	}
	return false
}

// ---------------------------------------------------------------- loops

// handleLoopHeader implements the invariant cut (DESIGN §2.2). Returns true if the path ends.
func (x *Exec) handleLoopHeader(s *State, f *Frame, li *loopInfo, backEdge bool) bool {
	var invs []*Clause
	for _, c := range x.spec.LoopInvs {
		if c.Loop == li.ordinal {
			invs = append(invs, c)
		}
	}
	if len(invs) == 0 {
		if !x.spec.AutoInv && !(x.prop == "C17" && len(x.spec.Owns) > 0) {
			unsupported("loop %d of %s has no invariant", li.ordinal, fnName(x.fn))
		}
	}
	// evaluate phis with the incoming edge first so the invariant can be asserted on them
	loopVars := func() map[string]Val {
		vars := map[string]Val{}
		for _, in := range f.block.Instrs {
			phi, ok := in.(*ssa.Phi)
			if !ok {
				break
			}
			if v, ok := f.regs[phi]; ok && phi.Comment != "" {
				vars[phi.Comment] = v
				vars["#"+phi.Comment] = v
			}
		}
		// a hand-written index loop `for i := 0; i < n; i++` is the lowered form of a slice range
		// loop with the index one ahead: contracts written for the range form (#rangeindex = last
		// index processed) keep applying with #rangeindex = i - 1
		if _, ok := vars["#rangeindex"]; !ok {
			var cand *ssa.Phi
			n := 0
			for _, in := range f.block.Instrs {
				phi, ok := in.(*ssa.Phi)
				if !ok {
					break
				}
				if !isInteger(phi.Type()) || len(phi.Edges) != 2 {
					continue
				}
				c, isConst := phi.Edges[0].(*ssa.Const)
				if !isConst || c.Value == nil || c.Value.ExactString() != "0" {
					continue
				}
				if bo, ok := phi.Edges[1].(*ssa.BinOp); ok && bo.Op == token.ADD && bo.X == ssa.Value(phi) {
					if k, ok := bo.Y.(*ssa.Const); ok && k.Value != nil && k.Value.ExactString() == "1" {
						cand = phi
						n++
					}
				}
			}
			if n == 1 {
				if v, ok := f.regs[cand]; ok && len(v.L) == 1 {
					vars["#rangeindex"] = Val{Typ: v.Typ, L: []string{"(- " + v.L[0] + " 1)"}}
				}
			}
		}
		// hidden range iterators live in registers of kind Iter
		for r, v := range f.regs {
			if v.Iter != nil {
				_ = r
				vars["#visited"] = v
			}
		}
		return vars
	}
	// bind incoming phi values
	idx := -1
	for i, p := range f.block.Preds {
		if p == f.prev {
			idx = i
		}
	}
	var phis []*ssa.Phi
	var incoming []Val
	for _, in := range f.block.Instrs {
		phi, ok := in.(*ssa.Phi)
		if !ok {
			break
		}
		phis = append(phis, phi)
		incoming = append(incoming, x.val(s, phi.Edges[idx]))
	}
	for i, phi := range phis {
		f.regs[phi] = incoming[i]
	}
	kind := "loop_init"
	if backEdge {
		kind = "loop_step"
	}
	env := x.specEnv(s, x.entryHeap, loopVars())
	for _, c := range invs {
		if !hasProp(c.Props, x.prop) {
			continue
		}
		x.emit(s, kind, fmt.Sprintf("%d.%s", li.ordinal, c.Label), c.Props, env.evalBool(c.Expr), c)
	}
	if backEdge {
		x.paths++
		return true
	}
	// havoc: loop-carried registers, locals and heap arrays assigned in the loop
	for _, phi := range phis {
		f.regs[phi] = x.freshVal(s, phi.Type(), "loop."+phi.Comment)
	}
	for r, v := range f.regs {
		if v.Iter != nil {
			nit := *v.Iter
			ks := leavesOf(nit.KeyT)
			nit.Visited = x.D.fresh("visited", "(Array "+ks[0].Sort+" Bool)")
			dom := x.mapDom(s, nit.MapT, nit.MapRef)
			s.assume("(forall ((kk " + ks[0].Sort + ")) (=> (select " + nit.Visited + " kk) (select " + dom + " kk)))")
			f.regs[r] = Val{Typ: v.Typ, Iter: &nit}
		}
	}
	x.havocLoopModset(s, f, li)
	s.iterEpoch++
	env = x.specEnv(s, x.entryHeap, loopVars())
	for _, c := range invs {
		s.assume(env.evalBool(c.Expr))
	}
	f.idx = len(phis)
	return false
}

func (x *Exec) havocLoopModset(s *State, f *Frame, li *loopInfo) {
	if as, ok := x.spec.LoopAssigns[li.ordinal]; ok {
		env := x.specEnv(s, x.entryHeap, nil)
		for _, a := range as {
			x.havocAssign(s, env, a)
		}
		// locals stored in the loop are always havocked
	}
	all := false
	for b := range li.blocks {
		for _, in := range b.Instrs {
			switch in := in.(type) {
			case *ssa.Store:
				if al, ok := in.Addr.(*ssa.Alloc); ok && !al.Heap {
					f.locals[al] = x.freshVal(s, al.Type().(*types.Pointer).Elem(), "loop.local")
					continue
				}
				if fa, ok := in.Addr.(*ssa.FieldAddr); ok {
					st := structOf(fa.X.Type())
					pt := fa.X.Type().Underlying().(*types.Pointer)
					fld := st.Field(fa.Field)
					if base, isAlloc := fa.X.(*ssa.Alloc); isAlloc && !base.Heap {
						f.locals[base] = x.freshVal(s, base.Type().(*types.Pointer).Elem(), "loop.local")
						continue
					}
					for _, lf := range leavesOf(fld.Type()) {
						x.heapHavocAll(s, typeKey(pt.Elem())+"."+fld.Name()+lf.Suffix, lf.Sort)
					}
					continue
				}
				all = true
			case *ssa.MapUpdate:
				all = true
			case *ssa.Call:
				if _, declared := x.spec.LoopAssigns[li.ordinal]; declared {
					continue
				}
				if !x.callIsFramed(s, &in.Call) {
					all = true
				} else {
					x.havocCalleeAssignsStatic(s, &in.Call)
				}
				x.markOpaqueEvents(s, &in.Call)
			case *ssa.Go, *ssa.Send, *ssa.Select:
				if s.opaqueEvents == nil {
					s.opaqueEvents = map[string]bool{}
				}
				s.opaqueEvents["select"] = true
				s.opaqueEvents["chan.send"] = true
			}
		}
	}
	if all {
		if _, declared := x.spec.LoopAssigns[li.ordinal]; !declared {
			for n := range s.heap {
				sort := x.D.sorts["H0."+n]
				if sort == "" {
					// array first created by a store: find any version's sort
					sort = x.D.sorts[s.heap[n]]
				}
				nv := x.D.fresh("H."+n, sort)
				s.heap[n] = nv
			}
			x.note("loop in " + fnName(x.fn) + ": whole heap havocked at the loop head (no loop assigns clause)")
		}
	}
	x.clearCache(s)
}

// callIsFramed reports whether the callee has a contract with an assigns clause (so the
// loop head needs to havoc only those locations).
func (x *Exec) callIsFramed(s *State, cc *ssa.CallCommon) bool {
	if cc.IsInvoke() {
		return true // interface calls: effects given by the interface contract or none (A8)
	}
	switch f := cc.Value.(type) {
	case *ssa.Function:
		if sp, ok := x.P.specs.Funcs[fnName(f)]; ok {
			return sp.HasAssigns || sp.Pure
		}
		if f.Pkg != nil && !strings.HasPrefix(f.Pkg.Pkg.Path(), modulePath) {
			return true // library stub: no effect on modelled heap
		}
		return false
	case *ssa.Builtin:
		return true
	}
	return true // function values: field contracts or A8
}

func (x *Exec) havocCalleeAssignsStatic(s *State, cc *ssa.CallCommon) {
	f, ok := cc.Value.(*ssa.Function)
	if !ok {
		// function value / interface method: havoc ghost arrays named by its contract
		name := x.calleeEventName(cc)
		name = strings.TrimPrefix(name, "funcvalue:")
		if sp, ok := x.P.specs.Funcs[name]; ok {
			for _, a := range sp.Assigns {
				ex := mustParse(a)
				if ex.Op != "sel" {
					continue
				}
				for key, g := range x.P.specs.Ghosts {
					if strings.HasSuffix(key, "."+ex.Tok) {
						gt, err := x.P.lookupType(g.Type)
						if err != nil {
							continue
						}
						for _, lf := range leavesOf(gt) {
							x.heapHavocAll(s, "ghost:"+key+lf.Suffix, lf.Sort)
						}
					}
				}
			}
		}
		return
	}
	sp, ok := x.P.specs.Funcs[fnName(f)]
	if !ok {
		return
	}
	// conservatively havoc whole arrays named by the callee's assigns (field granularity)
	for _, a := range sp.Assigns {
		ex := mustParse(a)
		if ex.Op != "sel" {
			continue
		}
		// resolve the static type of the base through the callee's parameter types
		var baseT types.Type
		if ex.Args[0].Op == "id" {
			for _, p := range f.Params {
				if p.Name() == ex.Args[0].Tok || (ex.Args[0].Tok == "this" && f.Signature.Recv() != nil && p == f.Params[0]) {
					baseT = p.Type()
				}
			}
		}
		if baseT == nil {
			continue
		}
		pt, ok := baseT.Underlying().(*types.Pointer)
		if !ok {
			continue
		}
		st, ok := pt.Elem().Underlying().(*types.Struct)
		if !ok {
			continue
		}
		for i := 0; i < st.NumFields(); i++ {
			if st.Field(i).Name() == ex.Tok {
				for _, lf := range leavesOf(st.Field(i).Type()) {
					x.heapHavocAll(s, typeKey(pt.Elem())+"."+ex.Tok+lf.Suffix, lf.Sort)
				}
			}
		}
	}
}

func (x *Exec) markOpaqueEvents(s *State, cc *ssa.CallCommon) {
	if s.opaqueEvents == nil {
		s.opaqueEvents = map[string]bool{}
	}
	s.opaqueEvents[x.calleeEventName(cc)] = true
}

func (x *Exec) calleeEventName(cc *ssa.CallCommon) string {
	if cc.IsInvoke() {
		return typeKey(cc.Value.Type()) + "." + cc.Method.Name()
	}
	switch f := cc.Value.(type) {
	case *ssa.Function:
		return fnName(f)
	case *ssa.Builtin:
		return "builtin." + f.Name()
	}
	return "funcvalue:" + x.funcValueOrigin(cc.Value)
}

// funcValueOrigin names where a function value was loaded from: "limit.VegasLimit.alphaFunc",
// "elem:[]core.LimitChangeListener", or "param:name".
func (x *Exec) funcValueOrigin(v ssa.Value) string {
	switch v := v.(type) {
	case *ssa.UnOp:
		if v.Op == token.MUL {
			switch a := v.X.(type) {
			case *ssa.FieldAddr:
				st := structOf(a.X.Type())
				pt, ok := a.X.Type().Underlying().(*types.Pointer)
				if ok {
					return typeKey(pt.Elem()) + "." + st.Field(a.Field).Name()
				}
			case *ssa.IndexAddr:
				if sl, ok := a.X.Type().Underlying().(*types.Slice); ok {
					return "elem:" + typeKey(sl.Elem())
				}
			case *ssa.FreeVar:
				return "captured:" + a.Name()
			case *ssa.Global:
				return "glob:" + shortPkg(a.Pkg.Pkg) + "." + a.Name()
			}
		}
	case *ssa.Parameter:
		return "param:" + typeKey(v.Type()) + ":" + v.Name()
	case *ssa.Extract:
		return "elem:" + typeKey(v.Type())
	case *ssa.Phi:
		return "phi:" + typeKey(v.Type())
	case *ssa.FreeVar:
		return "captured:" + v.Name()
	case *ssa.Field:
		st := structOf(v.X.Type())
		return typeKey(v.X.Type()) + "." + st.Field(v.Field).Name()
	}
	return "value:" + typeKey(v.Type())
}

// ---------------------------------------------------------------- postconditions

func (x *Exec) resultVars(res []Val) map[string]Val {
	vars := map[string]Val{}
	names := resultNames(x.fn)
	for i, r := range res {
		if i < len(names) {
			vars[names[i]] = r
		}
		vars[fmt.Sprintf("ret%d", i)] = r
	}
	if len(res) == 1 {
		vars["result"] = res[0]
	}
	return vars
}

func (x *Exec) checkPost(s *State, res []Val) {
	if x.checkOwn {
		for k := range s.held {
			if x.entryHeld[k] {
				continue
			}
			x.emit(s, "owns", "lock_released_at_return", x.spec.Owns, "false", nil)
			break
		}
	}
	// ghost assignments at exit (all right-hand sides are evaluated first, then assigned)
	if len(x.spec.GhostSets) > 0 {
		genv := x.specEnv(s, x.entryHeap, x.resultVars(res))
		var vals []Val
		for _, gs := range x.spec.GhostSets {
			vals = append(vals, genv.eval(mustParse(gs[1])))
		}
		for i, gs := range x.spec.GhostSets {
			for j, t := range x.assignTargets(s, genv, gs[0]) {
				if !strings.HasPrefix(t.arr, "ghost_") {
					specFail("ghostset target %s is not a ghost field", gs[0])
				}
				v := vals[i]
				term := v.L[j]
				if isUntyped(v.Typ) && strings.Contains(t.sort, " F)") {
					term = genv.untypedToFloat(v)
				}
				elem := strings.TrimSuffix(strings.TrimPrefix(t.sort, "(Array Int "), ")")
				x.heapStore(s, t.arr, elem, t.base, term)
			}
		}
	}
	if conformMode && !x.relyMode {
		// executor conformance (DESIGN 0.12): this return path, with its final symbolic heap, is
		// replayed on the real code from a model of its path condition
		o := &Obligation{Name: fnName(x.fn) + "/conform:path", Func: fnName(x.fn), Kind: "conform", Label: "path", PathID: x.paths,
			PC: append([]string(nil), s.pc...), Goal: "false", Inputs: x.inputs, Final: copyHeap(s.heap)}
		x.obls = append(x.obls, o)
	}
	if coverClauses && !x.relyMode {
		// at least one return path of the function must be reachable under its precondition
		x.emit(s, "cover", "some_return_path_is_reachable", []string{x.prop}, "false", nil)
	}
	env := x.specEnv(s, x.entryHeap, x.resultVars(res))
	if x.relyMode {
		for _, c := range x.spec.REnsures {
			if !hasProp(c.Props, x.prop) {
				continue
			}
			x.emit(s, "rely", c.Label, c.Props, env.evalBool(c.Expr), c)
		}
		return
	}
	for _, c := range x.spec.Ensures {
		if !hasProp(c.Props, x.prop) {
			continue
		}
		goal, und := evalClause(env, c.Expr)
		if und != "" {
			fname := fnName(x.fn)
			x.obls = append(x.obls, &Obligation{Name: fname + "/ensures:" + c.Label, Func: fname, Kind: "ensures", Label: c.Label, Props: c.Props,
				PathID: x.paths, PC: append([]string(nil), s.pc...), Goal: "true", Clause: c, Inputs: x.inputs, Undecidable: und})
			continue
		}
		name := fnName(x.fn) + "/ensures:" + c.Label
		if kf, ok := x.P.findings[name]; ok && kf.Region != "" {
			// known finding (DESIGN §4.5): the obligation is proved outside the recorded region,
			// and the finding is re-confirmed inside it.
			region := env.evalBool(mustParse(kf.Region))
			x.emit(s, "ensures", c.Label, c.Props, sOr(region, goal), c)
			x.emit(s, "finding", c.Label, c.Props, sOr(sNot(region), goal), c)
			continue
		}
		x.emit(s, "ensures", c.Label, c.Props, goal, c)
		if coverClauses && c.Expr.Op == "bin" && c.Expr.Tok == "==>" {
			// reachability of the hypothesis: a clause whose hypothesis can never hold says nothing
			hyp := env.evalBool(c.Expr.Args[0])
			x.emit(s, "cover", c.Label, c.Props, sNot(hyp), c)
		}
	}
	if x.spec.ZeroesNewFields && x.fn.Signature.Recv() != nil {
		x.checkNewFieldsZeroed(s)
	}
	if x.spec.Implements != "" {
		x.checkImplements(s, res)
	}
	for _, r := range x.spec.Refines {
		if x.prop == "" || hasProp(r.Props, x.prop) {
			x.checkRefines(s, res, r)
		}
	}
	for _, m := range x.spec.Maintains {
		v := env.eval(mustParse(m.Text))
		ts := x.typeSpecOf(v.Typ)
		if ts == nil {
			specFail("maintains %s: no type spec", m.Text)
		}
		n := env.sub(map[string]Val{"this": v})
		for _, c := range ts.Invs {
			if x.prop != "" && !(hasProp(m.Props, x.prop) && (len(c.Props) == 0 || hasProp(c.Props, x.prop))) {
				continue
			}
			props := m.Props
			if x.prop != "" {
				props = []string{x.prop}
			}
			x.emit(s, "inv", c.Label, props, n.evalBool(c.Expr), c)
		}
	}
	for _, m := range x.spec.Establishes {
		// "establishes x" or "establishes cond ==> x": every invariant clause of x holds at exit
		guard := "true"
		target := m.Text
		if i := strings.Index(m.Text, "==>"); i >= 0 {
			guard = env.evalBool(mustParse(strings.TrimSpace(m.Text[:i])))
			target = strings.TrimSpace(m.Text[i+3:])
		}
		v := env.eval(mustParse(target))
		ts := x.typeSpecOf(v.Typ)
		if ts == nil {
			specFail("establishes %s: no type spec", m.Text)
		}
		n := env.sub(map[string]Val{"this": v})
		for _, c := range ts.Invs {
			if x.prop != "" && !(hasProp(m.Props, x.prop) && (len(c.Props) == 0 || hasProp(c.Props, x.prop))) {
				continue
			}
			props := m.Props
			if x.prop != "" {
				props = []string{x.prop}
			}
			x.emit(s, "inv", c.Label, props, sImp(guard, n.evalBool(c.Expr)), c)
		}
	}
	if x.spec.HasAssigns && (x.prop == "" || true) {
		x.checkFrame(s, env)
	}
}

// checkFrame: every heap array that changed must have changed only at locations named by
// the assigns clause or at objects allocated by this path (DESIGN §2.5).
func (x *Exec) checkFrame(s *State, env *Env) {
	allowed := map[string][]string{} // array name -> allowed base refs ("*" = any)
	for _, a := range x.spec.Assigns {
		for _, al := range x.assignTargets(s, env, a) {
			allowed[al.arr] = append(allowed[al.arr], al.base)
		}
	}
	sk := x.D.fresh("frame_sk", "Int")
	var viol []string
	var names []string
	for n, cur := range s.heap {
		init := "H0." + n
		if e, ok := x.entryHeap[n]; ok {
			init = e
		}
		if cur == init {
			continue
		}
		if strings.HasPrefix(n, "env_") || strings.HasPrefix(n, "map_") && false {
			continue
		}
		if _, ok := x.D.sorts[init]; !ok {
			continue // array created on this path (only fresh objects can be in it)
		}
		if ts, tn, field := x.classify(n); ts != nil {
			base := field
			for _, suf := range []string{"_t", "_v", "_len", "_c", "_e"} {
				base = strings.TrimSuffix(base, suf)
			}
			_, g := ts.Guarded[base]
			_, so := ts.SubObjects[base]
			_, dt := ts.DynType[base]
			if !g && !so && !dt && !ts.Atomic[base] && !ts.Immutable[base] && !ts.AtomicCell[base] && !ts.Confined[base] {
				// a field no contract file knows about (added after they were written): no contract
				// can speak about it, so writing it cannot invalidate what a caller relies on
				x.note("frame: field " + tn + "." + base + " is not classified in the contract files; writes to it are outside every assigns clause and are not reported")
				continue
			}
		}
		conds := []string{"(select Alloc0 " + sk + ")", "(not (= " + sk + " 0))"}
		wild := false
		for _, b := range allowed[n] {
			if b == "*" {
				wild = true
			}
			conds = append(conds, "(not (= "+sk+" "+b+"))")
		}
		if wild {
			continue
		}
		viol = append(viol, sAnd(append(conds, "(not (= (select "+cur+" "+sk+") (select "+init+" "+sk+")))")...))
		names = append(names, n)
	}
	goal := sNot(sOr(viol...))
	x.emit(s, "frame", "assigns", x.framePropsOrAll(), goal, nil)
	_ = names
}

func (x *Exec) framePropsOrAll() []string { return nil }

type assignTarget struct{ arr, base, sort string }

func (x *Exec) assignTargets(s *State, env *Env, a string) []assignTarget {
	if strings.HasPrefix(a, "all ") {
		// "all T.g": every cell of the ghost/field array
		key := strings.TrimSpace(a[4:])
		if g, ok := x.P.specs.Ghosts[key]; ok {
			gt, err := x.P.lookupType(g.Type)
			if err != nil {
				specFail("assigns %s: %v", a, err)
			}
			var out []assignTarget
			for _, lf := range leavesOf(gt) {
				out = append(out, assignTarget{x.arrName("ghost:" + key + lf.Suffix), "*", "(Array Int " + lf.Sort + ")"})
			}
			return out
		}
		// "all pkg.Type.field": that field of every object of the type
		if i := strings.LastIndex(key, "."); i > 0 {
			if nt, ok := x.P.named[key[:i]]; ok {
				if st, ok := nt.Underlying().(*types.Struct); ok {
					for j := 0; j < st.NumFields(); j++ {
						if st.Field(j).Name() == key[i+1:] {
							var out []assignTarget
							for _, lf := range leavesOf(st.Field(j).Type()) {
								out = append(out, assignTarget{x.arrName(key + lf.Suffix), "*", "(Array Int " + lf.Sort + ")"})
							}
							return out
						}
					}
				}
			}
		}
		specFail("assigns: unknown ghost or field %s", key)
	}
	ex := mustParse(a)
	var out []assignTarget
	switch ex.Op {
	case "sel":
		base := env.eval(ex.Args[0])
		t := types.Unalias(base.Typ)
		switch u := t.Underlying().(type) {
		case *types.Pointer:
			owner := typeKey(u.Elem())
			if st, ok := u.Elem().Underlying().(*types.Struct); ok {
				for i := 0; i < st.NumFields(); i++ {
					if st.Field(i).Name() == ex.Tok {
						for _, lf := range leavesOf(st.Field(i).Type()) {
							out = append(out, assignTarget{x.arrName(owner + "." + ex.Tok + lf.Suffix), base.L[0], "(Array Int " + lf.Sort + ")"})
						}
						if mt, isMap := st.Field(i).Type().Underlying().(*types.Map); isMap {
							out = append(out, x.mapTargets(mt, "*")...)
						}
						return out
					}
				}
			}
			if g, ok := x.P.specs.Ghosts[owner+"."+ex.Tok]; ok {
				gt, _ := x.P.lookupType(g.Type)
				for _, lf := range leavesOf(gt) {
					out = append(out, assignTarget{x.arrName("ghost:" + owner + "." + ex.Tok + lf.Suffix), base.L[0], "(Array Int " + lf.Sort + ")"})
				}
				return out
			}
		case *types.Signature:
			owner := typeKey(t)
			if g, ok := x.P.specs.Ghosts[owner+"."+ex.Tok]; ok {
				gt, _ := x.P.lookupType(g.Type)
				for _, lf := range leavesOf(gt) {
					out = append(out, assignTarget{x.arrName("ghost:" + owner + "." + ex.Tok + lf.Suffix), base.L[1], "(Array Int " + lf.Sort + ")"})
				}
				return out
			}
		case *types.Interface:
			owner := typeKey(t)
			if g, ok := x.P.specs.Ghosts[owner+"."+ex.Tok]; ok {
				gt, _ := x.P.lookupType(g.Type)
				for _, lf := range leavesOf(gt) {
					out = append(out, assignTarget{x.arrName("ghost:" + owner + "." + ex.Tok + lf.Suffix), base.L[1], "(Array Int " + lf.Sort + ")"})
				}
				return out
			}
		}
		specFail("assigns: cannot resolve %s", a)
	case "un":
		if ex.Tok == "*" {
			p := env.eval(ex.Args[0])
			pt := p.Typ.Underlying().(*types.Pointer)
			for _, lf := range leavesOf(pt.Elem()) {
				out = append(out, assignTarget{x.arrName(typeKey(pt.Elem()) + lf.Suffix), p.L[0], "(Array Int " + lf.Sort + ")"})
			}
			return out
		}
	case "call":
		if ex.Args[0].Op == "id" && ex.Args[0].Tok == "listof" {
			// the ghost state of a container/list.List: membership, length, arrival counter of the
			// list, and the stamp / owner of every element (PushFront stamps a fresh element)
			l := env.eval(ex.Args[1])
			return []assignTarget{
				{x.arrName("ghost:list.mem"), l.L[0], "(Array Int (Array Int Bool))"},
				{x.arrName("ghost:list.len"), l.L[0], "(Array Int Int)"},
				{x.arrName("ghost:list.next"), l.L[0], "(Array Int Int)"},
				{x.arrName("ghost:list.stamp"), "*", "(Array Int Int)"},
				{x.arrName("ghost:list.owner"), "*", "(Array Int Int)"},
			}
		}
		if ex.Args[0].Op == "id" && ex.Args[0].Tok == "mapof" {
			m := env.eval(ex.Args[1])
			mt := m.Typ.Underlying().(*types.Map)
			return x.mapTargets(mt, m.L[0])
		}
	}
	specFail("assigns: unsupported location %s", a)
	return nil
}

func (x *Exec) mapTargets(mt *types.Map, base string) []assignTarget {
	ks := leavesOf(mt.Key())[0].Sort
	out := []assignTarget{{x.arrName(mapPath(mt) + "#dom"), base, "(Array Int (Array " + ks + " Bool))"}, {x.arrName(mapPath(mt) + "#len"), base, "(Array Int Int)"}}
	for _, lf := range leavesOf(mt.Elem()) {
		out = append(out, assignTarget{x.arrName(mapPath(mt) + "#val" + lf.Suffix), base, "(Array Int (Array " + ks + " " + lf.Sort + "))"})
	}
	return out
}

// havocAssign overwrites the location(s) named by an assigns entry with fresh values.
func (x *Exec) havocAssign(s *State, env *Env, a string) {
	for _, t := range x.assignTargets(s, env, a) {
		elem := strings.TrimSuffix(strings.TrimPrefix(t.sort, "(Array Int "), ")")
		cur := x.heapCur(s, t.arr, elem)
		nv := x.D.fresh("H."+t.arr, t.sort)
		if t.base != "*" {
			hv := x.D.fresh("havoc."+t.arr, elem)
			s.assume("(= " + nv + " (store " + cur + " " + t.base + " " + hv + "))")
		}
		s.heap[t.arr] = nv
		delete(s.cache, t.arr)
	}
}

func parseIntLit(s string) (int, bool) {
	n, err := strconv.Atoi(s)
	return n, err == nil
}

// checkImplements: a default closure installed into a function-typed field must satisfy that
// field's contract (refinement obligation of DESIGN §2.9). Clauses that mention the owning
// object cannot be stated for the closure alone and are skipped (noted).
func (x *Exec) checkImplements(s *State, res []Val) {
	fc, ok := x.P.specs.Funcs[x.spec.Implements]
	if !ok {
		specFail("implements: no contract %s", x.spec.Implements)
	}
	vars := x.resultVars(res)
	real := x.fn.Params
	for i, n := range fc.Params {
		if i < len(real) {
			vars[n] = s.frames[0].regs[real[i]]
			if v, ok := x.params[real[i].Name()]; ok {
				vars[n] = v
			}
		}
	}
	env := &Env{x: x, s: s, vars: vars, heap: s.heap, old: x.entryHeap, events: s.events}
	for _, c := range fc.Ensures {
		if mentions(c.Expr, "owner") {
			x.note("implements " + fc.Name + ": clause " + c.Label + " mentions the owning object and is assumed for the default closure")
			continue
		}
		if !hasProp(c.Props, x.prop) && len(c.Props) > 0 && x.prop != "" {
			continue
		}
		props := c.Props
		x.emit(s, "implements", shortName(fc.Name)+"."+c.Label, props, env.evalBool(c.Expr), c)
	}
}

// substGhost replaces every `this.<g>` (g a model field named in the abstraction map) by the
// abstraction expression; inside old(...) the replacement is evaluated in the pre-state like
// everything else.
func substGhost(e *SExpr, m map[string]*SExpr) *SExpr {
	if e == nil {
		return nil
	}
	if e.Op == "sel" && len(e.Args) == 1 && e.Args[0].Op == "id" && e.Args[0].Tok == "this" {
		if r, ok := m[e.Tok]; ok {
			return r
		}
	}
	n := *e
	n.Args = make([]*SExpr, len(e.Args))
	for i, a := range e.Args {
		n.Args[i] = substGhost(a, m)
	}
	return &n
}

// refineVars binds the interface contract's parameter and result names to this method's values.
func (x *Exec) refineVars(s *State, fc *FuncSpec, res []Val) map[string]Val {
	vars := map[string]Val{}
	if res != nil {
		vars = x.resultVars(res)
		if m, ok := x.P.ifaceMethods[fc.Name]; ok {
			rs := m.Type().(*types.Signature).Results()
			for i := 0; i < rs.Len() && i < len(res); i++ {
				if n := rs.At(i).Name(); n != "" && n != "_" {
					vars[n] = res[i]
				}
			}
		}
	}
	real := x.fn.Params
	off := 0
	if x.fn.Signature.Recv() != nil {
		off = 1
	}
	for i, n := range fc.Params {
		if off+i < len(real) {
			p := real[off+i]
			if v, ok := x.params[p.Name()]; ok {
				vars[n] = v
			}
		}
	}
	return vars
}

// checkRefines: every postcondition of the interface method's contract, read through the
// abstraction map, holds at this return (DESIGN 0.7). Frame part: the interface contract's
// callers assume nothing outside its assigns changes, so everything this method assigns must be
// state private to the receiver's representation (checked syntactically: rooted at the receiver).
func (x *Exec) checkRefines(s *State, res []Val, r *Refine) {
	fc, ok := x.P.specs.Funcs[r.Target]
	if !ok {
		specFail("refines: no contract %s", r.Target)
	}
	vars := x.refineVars(s, fc, res)
	env := x.specEnv(s, x.entryHeap, vars)
	for _, c := range fc.Ensures {
		if usesEvents(c.Expr) {
			continue
		}
		x.emit(s, "refines", shortName(fc.Name)+"."+c.Label, r.Props, env.evalBool(substGhost(c.Expr, r.Map)), c)
	}
	// frame: what this method may change must be representation state reached from the receiver
	if !x.spec.HasAssigns {
		x.note("refinement of " + fc.Name + " by " + fnName(x.fn) + ": no assigns clause, the frame part of the refinement is not checked")
		return
	}
	recv := ""
	if x.fn.Signature.Recv() != nil && len(x.fn.Params) > 0 {
		recv = x.fn.Params[0].Name()
		if a := baselineParamName(fnName(x.fn), 0); a != "" {
			recv = a
		}
	}
	for _, a := range x.spec.Assigns {
		t := strings.TrimSpace(a)
		ok := strings.HasPrefix(t, "all ") || strings.HasPrefix(t, recv+".") || strings.HasPrefix(t, "*"+recv+".") || strings.HasPrefix(t, "this.") ||
			strings.Contains(t, "("+recv+",") || strings.Contains(t, "("+recv+")") || strings.Contains(t, "("+recv+".") || strings.Contains(t, "(*"+recv+".")
		goal := "true"
		if !ok {
			goal = "false"
		}
		x.emit(s, "refines", shortName(fc.Name)+".frame:"+strings.ReplaceAll(t, " ", ""), r.Props, goal, nil)
	}
}

// checkRefinesPre: the interface contract's precondition (plus this object's invariant) implies
// this method's own precondition, so a caller that only knows the interface may call it.
func (x *Exec) checkRefinesPre(s0 *State) {
	for _, r := range x.spec.Refines {
		if x.prop != "" && !hasProp(r.Props, x.prop) {
			continue
		}
		fc, ok := x.P.specs.Funcs[r.Target]
		if !ok {
			specFail("refines: no contract %s", r.Target)
		}
		s := s0.clone()
		vars := x.refineVars(s, fc, nil)
		env := x.specEnv(s, s.heap, vars)
		for _, c := range fc.Requires {
			s.assume(env.evalBool(substGhost(c.Expr, r.Map)))
		}
		for _, c := range x.spec.Requires {
			if mentionsCall(c.Expr, "held") {
				continue
			}
			if strings.HasSuffix(c.Label, "_no_overflow") {
				x.note("refinement of " + fc.Name + ": precondition " + c.Label + " of " + fnName(x.fn) + " is an overflow assumption (A3), not implied by the interface contract")
				continue
			}
			x.obls = append(x.obls, &Obligation{Name: fnName(x.fn) + "/refines_pre:" + shortName(fc.Name) + "." + c.Label, Func: fnName(x.fn), Kind: "refines_pre",
				Label: shortName(fc.Name) + "." + c.Label, Props: r.Props, PC: append([]string(nil), s.pc...), Goal: env.evalBool(c.Expr), Clause: c, Inputs: x.inputs})
		}
	}
}

func mentions(e *SExpr, id string) bool {
	if e.Op == "id" && e.Tok == id {
		return true
	}
	for _, a := range e.Args {
		if mentions(a, id) {
			return true
		}
	}
	return false
}

// speculable reports whether a block only computes values / allocates fresh objects, so that it
// can be executed unconditionally and its results merged with ite at the join (if-conversion of
// "if x == nil { x = default }" style triangles; keeps constructors from exploding into 2^n paths).
func speculable(b *ssa.BasicBlock) bool {
	if len(b.Succs) != 1 || len(b.Preds) != 1 {
		return false
	}
	fresh := map[ssa.Value]bool{}
	for _, in := range b.Instrs {
		switch in := in.(type) {
		case *ssa.Jump, *ssa.DebugRef, *ssa.MakeClosure, *ssa.MakeInterface, *ssa.ChangeType, *ssa.ChangeInterface:
		case *ssa.Alloc:
			fresh[in] = true
		case *ssa.Store:
			// only initialisation of objects allocated in this block
			root := in.Addr
			for {
				if fa, ok := root.(*ssa.FieldAddr); ok {
					root = fa.X
					continue
				}
				break
			}
			if !fresh[root] {
				return false
			}
		case *ssa.FieldAddr:
			if !fresh[in.X] {
				return false
			}
		case *ssa.Convert:
			if isFloat(in.X.Type()) && isInteger(in.Type()) {
				return false
			}
		case *ssa.BinOp:
			if in.Op == token.QUO || in.Op == token.REM {
				return false
			}
		case *ssa.UnOp:
			if in.Op == token.MUL {
				if _, ok := in.X.(*ssa.Global); !ok {
					return false
				}
			} else if in.Op == token.ARROW {
				return false
			}
		case *ssa.Phi:
			return false
		default:
			return false
		}
	}
	return true
}

// tryMerge handles `if c { T } ; J` (triangle) where T is speculable: no path fork.
func (x *Exec) tryMerge(s *State, f *Frame, c string) bool {
	b := f.block
	t, e := b.Succs[0], b.Succs[1]
	var spec, join *ssa.BasicBlock
	cond := c
	switch {
	case speculable(t) && t.Succs[0] == e:
		spec, join = t, e
	case speculable(e) && e.Succs[0] == t:
		spec, join = e, t
		cond = sNot(c)
	default:
		return false
	}
	if _, isLoop := x.loops[join]; isLoop {
		return false
	}
	// execute the speculative block
	for _, in := range spec.Instrs {
		if _, ok := in.(*ssa.Jump); ok {
			break
		}
		x.execInstr(s, in)
	}
	// merge phis of the join block
	var phis []*ssa.Phi
	var vals []Val
	for _, in := range join.Instrs {
		phi, ok := in.(*ssa.Phi)
		if !ok {
			break
		}
		var vs, vb Val
		okS, okB := false, false
		for i, p := range join.Preds {
			if p == spec {
				vs, okS = x.val(s, phi.Edges[i]), true
			} else if p == b {
				vb, okB = x.val(s, phi.Edges[i]), true
			}
		}
		if !okS || !okB || vs.Loc != nil || vb.Loc != nil || vs.Iter != nil || vb.Iter != nil || len(vs.L) != len(vb.L) {
			unsupported("cannot merge phi %s", phi.Name())
		}
		m := Val{Typ: phi.Type(), L: make([]string, len(vs.L))}
		for i := range vs.L {
			a, oka := (fctx{s}).finInner(vs.L[i])
			bb, okb := (fctx{s}).finInner(vb.L[i])
			if oka && okb && strings.HasPrefix(vs.L[i], "(fin ") {
				m.L[i] = "(fin " + sIte(cond, a, bb) + ")"
			} else {
				m.L[i] = sIte(cond, vs.L[i], vb.L[i])
			}
		}
		phis = append(phis, phi)
		vals = append(vals, m)
	}
	// other predecessors of join must not exist besides b and spec for this shortcut
	for _, p := range join.Preds {
		if p != b && p != spec {
			// join has further predecessors: they will evaluate the phis normally on their own paths
		}
	}
	f.prev = b
	f.block = join
	f.entered = true
	for i, phi := range phis {
		f.regs[phi] = vals[i]
	}
	f.idx = len(phis)
	return true
}

var baselineParams map[string][]string

func baselineParamsOf(fn string) ([]string, bool) {
	baselineParamName(fn, 0)
	ns, ok := baselineParams[fn]
	return ns, ok
}

func baselineParamName(fn string, i int) string {
	if baselineParams == nil {
		baselineParams = map[string][]string{}
		if b, err := os.ReadFile(filepath.Join(verifDir, "baseline_params.json")); err == nil {
			json.Unmarshal(b, &baselineParams)
		}
	}
	ns := baselineParams[fn]
	if i < len(ns) {
		return ns[i]
	}
	return ""
}


// checkNewFieldsZeroed: for a Reset-like method ("like new"), every field of the receiver that the
// contract files do not classify - i.e. one added after they were written, which the like_new
// clause cannot mention - must end as its zero value, as it is in a freshly constructed object.
func (x *Exec) checkNewFieldsZeroed(s *State) {
	this, ok := x.params["this"]
	if !ok || len(this.L) != 1 {
		return
	}
	pt, ok := types.Unalias(x.fn.Params[0].Type()).Underlying().(*types.Pointer)
	if !ok {
		return
	}
	nt, ok := types.Unalias(pt.Elem()).(*types.Named)
	if !ok {
		return
	}
	st, ok := nt.Underlying().(*types.Struct)
	if !ok {
		return
	}
	tk := typeKey(nt)
	ts := x.P.specs.Types[tk]
	if ts == nil {
		x.note("zeroes_unclassified_fields: no type contract for " + tk)
		return
	}
	for i := 0; i < st.NumFields(); i++ {
		f := st.Field(i)
		name := f.Name()
		_, g := ts.Guarded[name]
		_, so := ts.SubObjects[name]
		_, dt := ts.DynType[name]
		if g || so || dt || ts.Atomic[name] || ts.Immutable[name] || ts.AtomicCell[name] || ts.Confined[name] {
			continue
		}
		ls := leavesOf(f.Type())
		if len(ls) == 0 {
			continue
		}
		if !x.P.fieldIsRead(st, i) {
			// a field nothing reads (a write-only counter) cannot make the instance behave differently
			x.note("zeroes_unclassified_fields: " + tk + "." + name + " is never read in the repository; not required to be reset")
			continue
		}
		if !x.P.fieldWrittenByMethod(nt, st, i) {
			// set by constructors only: configuration, the same in a fresh instance
			x.note("zeroes_unclassified_fields: " + tk + "." + name + " is written by no method of the type (configuration set at construction); not required to be reset")
			continue
		}
		assigned := false
		for _, lf := range ls {
			n := x.arrName(tk + "." + name + lf.Suffix)
			cur, ok := s.heap[n]
			init := "H0." + n
			if e, ok2 := x.entryHeap[n]; ok2 {
				init = e
			}
			if ok && cur != init {
				assigned = true
			}
		}
		if assigned {
			// the method does give the field a value; whether that is the constructor's value cannot be
			// said without a contract that knows the field
			x.note("zeroes_unclassified_fields: " + tk + "." + name + " is assigned by " + fnName(x.fn) + "; its reset value is not compared with the constructor's")
			continue
		}
		z := zeroVal(f.Type())
		var eqs []string
		for j, lf := range ls {
			eqs = append(eqs, sEq(x.heapLoad(s, tk+"."+name+lf.Suffix, lf.Sort, this.L[0]), z.L[j]))
		}
		var props []string
		seen := map[string]bool{}
		for _, c := range x.spec.Ensures {
			for _, p := range c.Props {
				if !seen[p] {
					seen[p] = true
					props = append(props, p)
				}
			}
		}
		x.emit(s, "ensures", "new_field_is_reset:"+name, props, sAnd(eqs...), nil)
	}
}

// fieldIsRead: some function of the repository loads field idx of struct st (a FieldAddr whose
// address is used by anything other than a store into it, or a Field of a struct value).
func (p *Prog) fieldIsRead(st *types.Struct, idx int) bool {
	for _, f := range p.fnByID {
		for _, b := range f.Blocks {
			for _, in := range b.Instrs {
				switch v := in.(type) {
				case *ssa.Field:
					if structOf(v.X.Type()) == st && v.Field == idx {
						return true
					}
				case *ssa.FieldAddr:
					if structOf(v.X.Type()) != st || v.Field != idx {
						continue
					}
					for _, u := range *v.Referrers() {
						if sto, ok := u.(*ssa.Store); ok && sto.Addr == v {
							continue
						}
						if _, ok := u.(*ssa.DebugRef); ok {
							continue
						}
						if ld, ok := u.(*ssa.UnOp); ok && ld.Op == token.MUL && onlyFeedsItself(ld, st, idx) {
							continue // m.f++ / m.f += k: the value read only flows back into the field
						}
						return true
					}
				}
			}
		}
	}
	return false
}

func onlyFeedsItself(ld *ssa.UnOp, st *types.Struct, idx int) bool {
	for _, r := range *ld.Referrers() {
		bo, ok := r.(*ssa.BinOp)
		if !ok {
			if _, dbg := r.(*ssa.DebugRef); dbg {
				continue
			}
			return false
		}
		for _, r2 := range *bo.Referrers() {
			if _, dbg := r2.(*ssa.DebugRef); dbg {
				continue
			}
			sto, ok := r2.(*ssa.Store)
			if !ok {
				return false
			}
			fa, ok := sto.Addr.(*ssa.FieldAddr)
			if !ok || structOf(fa.X.Type()) != st || fa.Field != idx {
				return false
			}
		}
	}
	return true
}

// fieldWrittenByMethod: some function with a receiver of type nt (or a closure inside one)
// stores into field idx of struct st.
func (p *Prog) fieldWrittenByMethod(nt *types.Named, st *types.Struct, idx int) bool {
	for _, f := range p.fnByID {
		outer := f
		for outer.Parent() != nil {
			outer = outer.Parent()
		}
		recv := outer.Signature.Recv()
		if recv == nil {
			continue
		}
		rt := types.Unalias(recv.Type())
		if pt, ok := rt.(*types.Pointer); ok {
			rt = types.Unalias(pt.Elem())
		}
		if rn, ok := rt.(*types.Named); !ok || rn.Obj() != nt.Obj() {
			continue
		}
		for _, b := range f.Blocks {
			for _, in := range b.Instrs {
				sto, ok := in.(*ssa.Store)
				if !ok {
					continue
				}
				if fa, ok := sto.Addr.(*ssa.FieldAddr); ok && structOf(fa.X.Type()) == st && fa.Field == idx {
					return true
				}
			}
		}
	}
	return false
}
