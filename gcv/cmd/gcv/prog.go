package main

import (
	"fmt"
	"go/types"
	"os"
	"sort"
	"strings"

	"golang.org/x/tools/go/packages"
	"golang.org/x/tools/go/ssa"
	"golang.org/x/tools/go/ssa/ssautil"
)

type Prog struct {
	repo    string
	prog    *ssa.Program
	pkgs    []*packages.Package
	spkgs   map[string]*ssa.Package
	fns     map[string]*ssa.Function
	fnByID  map[int]*ssa.Function
	fnIDs   map[*ssa.Function]int
	specs   *Specs
	typeIDs map[string]int
	typeByID map[int]types.Type
	named   map[string]*types.Named
	ifaceMethods map[string]*types.Func // "core.Limit.OnSample"
	findings map[string]*KnownFinding // open known findings by obligation name
}

var repoPkgDirs = []string{"./core", "./strategy", "./strategy/matchers", "./limit", "./limit/functions", "./measurements",
	"./limiter", "./grpc", "./patterns/pool", "./metric_registry/gometrics", "./metric_registry/datadog"}

func goEnv() []string {
	env := os.Environ()
	env = append(env, "GOFLAGS=-mod=mod", "GOPROXY=off", "GOSUMDB=off", "GOTOOLCHAIN=local", "CGO_ENABLED=0")
	return env
}

func loadProg(repo string, dirs []string) (*Prog, error) {
	cfg := &packages.Config{Mode: packages.LoadAllSyntax, Dir: repo, BuildFlags: []string{"-tags=verif"}, Env: goEnv()}
	pkgs, err := packages.Load(cfg, dirs...)
	if err != nil {
		return nil, err
	}
	var errs []string
	packages.Visit(pkgs, nil, func(p *packages.Package) {
		if strings.HasPrefix(p.PkgPath, modulePath) {
			for _, e := range p.Errors {
				errs = append(errs, e.Error())
			}
		}
	})
	if len(errs) > 0 {
		return nil, fmt.Errorf("load errors: %s", strings.Join(errs, "; "))
	}
	prog, spkgs := ssautil.AllPackages(pkgs, ssa.BuilderMode(0))
	prog.Build()
	p := &Prog{repo: repo, prog: prog, pkgs: pkgs, spkgs: map[string]*ssa.Package{}, fns: map[string]*ssa.Function{},
		fnByID: map[int]*ssa.Function{}, fnIDs: map[*ssa.Function]int{}, typeIDs: map[string]int{}, typeByID: map[int]types.Type{},
		named: map[string]*types.Named{}, ifaceMethods: map[string]*types.Func{}}
	for _, sp := range spkgs {
		if sp == nil {
			continue
		}
		p.spkgs[shortPkg(sp.Pkg)] = sp
	}
	// Index every function of the repo packages (including anonymous and bound ones).
	all := ssautil.AllFunctions(prog)
	var list []*ssa.Function
	for f := range all {
		if f.Pkg != nil && strings.HasPrefix(f.Pkg.Pkg.Path(), modulePath) {
			list = append(list, f)
		} else if f.Pkg == nil && f.Synthetic != "" && strings.Contains(f.String(), modulePath) {
			list = append(list, f)
		}
	}
	sort.Slice(list, func(i, j int) bool { return fnName(list[i]) < fnName(list[j]) })
	for i, f := range list {
		n := fnName(f)
		if _, dup := p.fns[n]; !dup {
			p.fns[n] = f
		}
		p.fnIDs[f] = i + 1
		p.fnByID[i+1] = f
	}
	// named types and interface methods
	for _, pk := range pkgs {
		collectNamed(p, pk.Types)
	}
	packages.Visit(pkgs, nil, func(pk *packages.Package) {
		if strings.HasPrefix(pk.PkgPath, modulePath) {
			collectNamed(p, pk.Types)
		}
	})
	specs, err := loadSpecs(repo)
	if err != nil {
		return nil, err
	}
	p.specs = specs
	specDefines = specs.Defines
	p.findings = map[string]*KnownFinding{}
	kf := loadKnownFindings(verifDir)
	for i := range kf.Findings {
		f := &kf.Findings[i]
		if f.Status == "" || f.Status == "open" {
			p.findings[f.Obligation] = f
		}
	}
	return p, nil
}

func collectNamed(p *Prog, tp *types.Package) {
	sc := tp.Scope()
	for _, n := range sc.Names() {
		if tn, ok := sc.Lookup(n).(*types.TypeName); ok {
			if nt, ok := tn.Type().(*types.Named); ok {
				k := typeKey(nt)
				p.named[k] = nt
				if it, ok := nt.Underlying().(*types.Interface); ok {
					for i := 0; i < it.NumMethods(); i++ {
						m := it.Method(i)
						p.ifaceMethods[k+"."+m.Name()] = m
					}
				}
			}
		}
	}
}

// fnName renders an ssa function name relative to the module:
// "(*limit.AIMDLimit).OnSample", "limit.NewAIMDLimit", "limit.NewVegasLimitWithRegistry$5".
func fnName(f *ssa.Function) string {
	s := f.String()
	s = strings.ReplaceAll(s, modulePath+"/", "")
	return s
}

func (p *Prog) typeID(t types.Type) int {
	k := typeKey(t)
	if id, ok := p.typeIDs[k]; ok {
		return id
	}
	id := len(p.typeIDs) + 1
	p.typeIDs[k] = id
	p.typeByID[id] = t
	return id
}

// lookupType resolves "limit.AIMDLimit", "*measurements.MinimumMeasurement", "int", ...
func (p *Prog) lookupType(s string) (types.Type, error) {
	s = strings.TrimSpace(s)
	if strings.HasPrefix(s, "*") {
		t, err := p.lookupType(s[1:])
		if err != nil {
			return nil, err
		}
		return types.NewPointer(t), nil
	}
	if strings.HasPrefix(s, "[]") {
		t, err := p.lookupType(s[2:])
		if err != nil {
			return nil, err
		}
		return types.NewSlice(t), nil
	}
	switch s {
	case "int":
		return types.Typ[types.Int], nil
	case "int32":
		return types.Typ[types.Int32], nil
	case "int64":
		return types.Typ[types.Int64], nil
	case "uint64":
		return types.Typ[types.Uint64], nil
	case "bool":
		return types.Typ[types.Bool], nil
	case "float64":
		return types.Typ[types.Float64], nil
	case "string":
		return types.Typ[types.String], nil
	case "ref":
		return types.Typ[types.UnsafePointer], nil
	}
	if nt, ok := p.named[s]; ok {
		return nt, nil
	}
	return nil, fmt.Errorf("unknown type %q", s)
}
