package main

import (
	"fmt"
	"go/types"
	"os"
	"sort"
	"strings"

	"golang.org/x/tools/go/packages"
	"golang.org/x/tools/go/ssa"
	"golang.org/x/tools/go/ssa/ssautil"
)

type Prog struct {
	repo    string
	prog    *ssa.Program
	pkgs    []*packages.Package
	spkgs   map[string]*ssa.Package
	fns     map[string]*ssa.Function
	fnByID  map[int]*ssa.Function
	fnIDs   map[*ssa.Function]int
	specs   *Specs
	typeIDs map[string]int
	typeByID map[int]types.Type
	named   map[string]*types.Named
	ifaceMethods map[string]*types.Func // "core.Limit.OnSample"
	findings map[string]*KnownFinding // open known findings by obligation name
	renameNotes []string
}

var repoPkgDirs = []string{"./core", "./strategy", "./strategy/matchers", "./limit", "./limit/functions", "./measurements",
	"./limiter", "./grpc", "./patterns/pool", "./metric_registry/gometrics", "./metric_registry/datadog"}

func goEnv() []string {
	env := os.Environ()
	env = append(env, "GOFLAGS=-mod=mod", "GOPROXY=off", "GOSUMDB=off", "GOTOOLCHAIN=local", "CGO_ENABLED=0")
	return env
}

func loadProg(repo string, dirs []string) (*Prog, error) {
	cfg := &packages.Config{Mode: packages.LoadAllSyntax, Dir: repo, BuildFlags: []string{"-tags=verif"}, Env: goEnv()}
	pkgs, err := packages.Load(cfg, dirs...)
	if err != nil {
		return nil, err
	}
	var errs []string
	packages.Visit(pkgs, nil, func(p *packages.Package) {
		if strings.HasPrefix(p.PkgPath, modulePath) {
			for _, e := range p.Errors {
				errs = append(errs, e.Error())
			}
		}
	})
	if len(errs) > 0 {
		return nil, fmt.Errorf("load errors: %s", strings.Join(errs, "; "))
	}
	prog, spkgs := ssautil.AllPackages(pkgs, ssa.BuilderMode(0))
	prog.Build()
	p := &Prog{repo: repo, prog: prog, pkgs: pkgs, spkgs: map[string]*ssa.Package{}, fns: map[string]*ssa.Function{},
		fnByID: map[int]*ssa.Function{}, fnIDs: map[*ssa.Function]int{}, typeIDs: map[string]int{}, typeByID: map[int]types.Type{},
		named: map[string]*types.Named{}, ifaceMethods: map[string]*types.Func{}}
	for _, sp := range spkgs {
		if sp == nil {
			continue
		}
		p.spkgs[shortPkg(sp.Pkg)] = sp
	}
	// Index every function of the repo packages (including anonymous and bound ones).
	all := ssautil.AllFunctions(prog)
	var list []*ssa.Function
	for f := range all {
		if f.Pkg != nil && strings.HasPrefix(f.Pkg.Pkg.Path(), modulePath) {
			list = append(list, f)
		} else if f.Pkg == nil && f.Synthetic != "" && strings.Contains(f.String(), modulePath) {
			list = append(list, f)
		}
	}
	sort.Slice(list, func(i, j int) bool { return fnName(list[i]) < fnName(list[j]) })
	for i, f := range list {
		n := fnName(f)
		if _, dup := p.fns[n]; !dup {
			p.fns[n] = f
		}
		p.fnIDs[f] = i + 1
		p.fnByID[i+1] = f
	}
	// named types and interface methods
	for _, pk := range pkgs {
		collectNamed(p, pk.Types)
	}
	packages.Visit(pkgs, nil, func(pk *packages.Package) {
		if strings.HasPrefix(pk.PkgPath, modulePath) {
			collectNamed(p, pk.Types)
		}
	})
	specs, err := loadSpecs(repo)
	if err != nil {
		return nil, err
	}
	p.specs = specs
	specDefines = specs.Defines
	p.renameNotes = p.aliasRenamed()
	p.findings = map[string]*KnownFinding{}
	kf := loadKnownFindings(verifDir)
	for i := range kf.Findings {
		f := &kf.Findings[i]
		if f.Status == "" || f.Status == "open" {
			p.findings[f.Obligation] = f
		}
	}
	return p, nil
}

func collectNamed(p *Prog, tp *types.Package) {
	sc := tp.Scope()
	for _, n := range sc.Names() {
		if tn, ok := sc.Lookup(n).(*types.TypeName); ok {
			if nt, ok := tn.Type().(*types.Named); ok {
				k := typeKey(nt)
				p.named[k] = nt
				if it, ok := nt.Underlying().(*types.Interface); ok {
					for i := 0; i < it.NumMethods(); i++ {
						m := it.Method(i)
						p.ifaceMethods[k+"."+m.Name()] = m
					}
				}
			}
		}
	}
}

// fnName renders an ssa function name relative to the module:
// "(*limit.AIMDLimit).OnSample", "limit.NewAIMDLimit", "limit.NewVegasLimitWithRegistry$5".
func fnName(f *ssa.Function) string {
	if a, ok := fnAlias[f]; ok {
		return a
	}
	s := f.String()
	s = strings.ReplaceAll(s, modulePath+"/", "")
	return s
}

// fnAlias: an unexported function or method that was renamed keeps the contract written for its
// old name (and the obligation names of the accepted baseline). Filled by aliasRenamed.
var fnAlias = map[*ssa.Function]string{}

// aliasRenamed: for every contract whose target no longer exists, look for exactly one function in
// the same package with the same receiver type and an identical signature that is unexported,
// carries no contract of its own and whose name no contract mentions. If there is one, it is the
// renamed target: it (and its closures) answer to the old name from here on.
func (p *Prog) aliasRenamed() []string {
	var notes []string
	mentioned := func(n string) bool {
		_, ok := p.specs.Funcs[n]
		return ok
	}
	for old := range p.specs.Funcs {
		if _, ok := p.fns[old]; ok || isAssumedContract(p, old) || strings.Contains(old, "$") {
			continue
		}
		// "(*limit.VegasLimit).shouldProbe" or "limit.nextProbeCountdown"
		i := strings.LastIndex(old, ".")
		if i < 0 {
			continue
		}
		prefix, base := old[:i+1], old[i+1:]
		if base == "" || (base[0] >= 'A' && base[0] <= 'Z') {
			continue // exported: a rename is an API change, not a refactoring
		}
		// signature of the old function is unknown (it is gone); candidates must be unique by
		// prefix (same package / receiver), unexported, without contract
		var cands []*ssa.Function
		for n, f := range p.fns {
			if !strings.HasPrefix(n, prefix) || strings.Contains(n[len(prefix):], ".") || strings.Contains(n, "$") {
				continue
			}
			b := n[len(prefix):]
			if b == "" || (b[0] >= 'A' && b[0] <= 'Z') || mentioned(n) || f.Synthetic != "" {
				continue
			}
			if params, ok := baselineParamsOf(old); ok {
				// same number and types of parameters as recorded when the contract was accepted
				if len(params) != len(f.Params) {
					continue
				}
			}
			cands = append(cands, f)
		}
		if len(cands) != 1 {
			continue
		}
		f := cands[0]
		newName := fnName(f)
		fnAlias[f] = old
		delete(p.fns, newName)
		p.fns[old] = f
		// closures and bound-method wrappers of the renamed function follow it
		for n, g := range p.fns {
			if strings.HasPrefix(n, newName+"$") {
				fnAlias[g] = old + n[len(newName):]
				delete(p.fns, n)
				p.fns[old+n[len(newName):]] = g
			}
		}
		notes = append(notes, "contract of "+old+" applied to "+newName+" (unexported function renamed; unique candidate with the same receiver and arity)")
	}
	return notes
}

func (p *Prog) typeID(t types.Type) int {
	k := typeKey(t)
	if id, ok := p.typeIDs[k]; ok {
		return id
	}
	id := len(p.typeIDs) + 1
	p.typeIDs[k] = id
	p.typeByID[id] = t
	return id
}

// lookupType resolves "limit.AIMDLimit", "*measurements.MinimumMeasurement", "int", ...
func (p *Prog) lookupType(s string) (types.Type, error) {
	s = strings.TrimSpace(s)
	if strings.HasPrefix(s, "*") {
		t, err := p.lookupType(s[1:])
		if err != nil {
			return nil, err
		}
		return types.NewPointer(t), nil
	}
	if strings.HasPrefix(s, "[]") {
		t, err := p.lookupType(s[2:])
		if err != nil {
			return nil, err
		}
		return types.NewSlice(t), nil
	}
	switch s {
	case "int":
		return types.Typ[types.Int], nil
	case "int32":
		return types.Typ[types.Int32], nil
	case "int64":
		return types.Typ[types.Int64], nil
	case "uint64":
		return types.Typ[types.Uint64], nil
	case "bool":
		return types.Typ[types.Bool], nil
	case "float64":
		return types.Typ[types.Float64], nil
	case "string":
		return types.Typ[types.String], nil
	case "ref":
		return types.Typ[types.UnsafePointer], nil
	}
	if nt, ok := p.named[s]; ok {
		return nt, nil
	}
	return nil, fmt.Errorf("unknown type %q", s)
}
