package main

import (
	"sync"
	"fmt"
	"sort"
	"strings"
)

// gcv conform: bounded validation of the symbolic executor against the real code (DESIGN 0.12).
// For every contracted method whose receiver type the replay harness can construct, every
// feasible symbolic return path is replayed: a model of the path condition gives a concrete
// pre-state and arguments, the REAL function is run from it (go test -overlay), and the observed
// post-state must be consistent with that path's symbolic final state (rounding tolerance as in
// replay). An inconsistency means gcv's semantics of some instruction, call model or contract
// application on that path disagrees with Go. Not a proof; never counted as discharged.

type conformResult struct {
	Func         string   `json:"function"`
	Paths        int      `json:"return_paths"`
	Replayed     int      `json:"replayed"`
	Consistent   int      `json:"consistent_with_real_code"`
	Inconsistent []string `json:"inconsistent"`
	Skipped      []string `json:"skipped"`
}

func runConform(p *Prog, only string, among []string) []conformResult {
	conformMode = true
	defer func() { conformMode = false }()
	var names []string
	for name, fs := range p.specs.Funcs {
		if fs.Trusted || isAssumedContract(p, name) {
			continue
		}
		fn, ok := p.fns[name]
		if !ok || (only != "" && !strings.Contains(name, only)) {
			continue
		}
		if among != nil && !contains(among, name) {
			continue
		}
		nt := namedOfRecv(fn)
		if nt == nil {
			continue
		}
		if _, ok := replayCtors[typeKey(nt)]; !ok {
			continue
		}
		names = append(names, name)
	}
	sort.Strings(names)
	// phase 1 (sequential: executors share the program's type tables): symbolic return paths
	type job struct {
		fi  int
		o   *Obligation
		all []*Obligation
	}
	var out []conformResult
	var jobs []job
	for _, name := range names {
		fn := p.fns[name]
		fs := p.specs.Funcs[name]
		x := newExec(p, fn, fs, "")
		res := x.verify()
		cr := conformResult{Func: name}
		if res.Unsupported != "" {
			cr.Skipped = append(cr.Skipped, "unsupported: "+res.Unsupported)
			out = append(out, cr)
			continue
		}
		out = append(out, cr)
		for _, o := range res.Obls {
			if o.Kind == "conform" {
				out[len(out)-1].Paths++
				jobs = append(jobs, job{len(out) - 1, o, res.Obls})
			}
		}
	}
	// phase 2 (parallel): replay each path on the real code
	var mu sync.Mutex
	var wg sync.WaitGroup
	sem := make(chan struct{}, 5)
	for _, jb := range jobs {
		wg.Add(1)
		go func(jb job) {
			defer wg.Done()
			sem <- struct{}{}
			defer func() { <-sem }()
			o := jb.o
			fn := p.fns[out[jb.fi].Func]
			r := attemptReplay(p, "", o)
			verdict, msg := "skipped", fmt.Sprintf("path %d: %s", o.PathID, r.Reason)
			switch {
			case !r.Attempted:
			case r.Confirmed:
				verdict = "consistent"
			case strings.Contains(r.Reason, "does not follow"):
				// the model was taken from this path's condition, but where the symbolic world is
				// more permissive than reality (uninterpreted configuration functions, opaque spec
				// functions) the real run may legitimately take another path: it must be admitted by
				// SOME return path
				verdict = "inconsistent"
				msg = fmt.Sprintf("path %d: real post-state %v is not admitted by the symbolic path (inputs %s)", o.PathID, r.Cells, modelInputs(o))
				for _, o2 := range jb.all {
					if o2.Kind == "conform" && o2 != o && consistentWithPath(p, o2, namedOfRecv(fn), &r) == "sat" {
						verdict = "consistent"
						break
					}
				}
			}
			mu.Lock()
			cr := &out[jb.fi]
			switch verdict {
			case "consistent":
				cr.Replayed++
				cr.Consistent++
			case "inconsistent":
				cr.Replayed++
				cr.Inconsistent = append(cr.Inconsistent, msg)
			default:
				cr.Skipped = append(cr.Skipped, msg)
			}
			mu.Unlock()
		}(jb)
	}
	wg.Wait()
	return out
}

func cmdConform(args []string) int {
	p := mustLoad()
	only := ""
	if len(args) > 0 {
		only = args[0]
	}
	res := runConform(p, only, nil)
	bad := 0
	paths, rep, cons := 0, 0, 0
	for _, r := range res {
		paths += r.Paths
		rep += r.Replayed
		cons += r.Consistent
		fmt.Printf("%-62s paths=%-3d replayed=%-3d consistent=%-3d inconsistent=%d skipped=%d\n", r.Func, r.Paths, r.Replayed, r.Consistent, len(r.Inconsistent), len(r.Skipped))
		for _, s := range r.Inconsistent {
			bad++
			fmt.Println("   INCONSISTENT", truncate(s, 600))
		}
		if only != "" {
			for _, s := range r.Skipped {
				fmt.Println("   skipped:", truncate(s, 300))
			}
		}
	}
	fmt.Printf("executor conformance (bounded): %d functions, %d return paths, %d replayed on the real code, %d consistent, %d inconsistent\n", len(res), paths, rep, cons, bad)
	writeJSON(verifDir+"/conformance.json", map[string]interface{}{"label": "bounded, not counted as proof: every feasible symbolic return path of the constructible methods replayed on the real code", "results": res})
	if bad > 0 {
		return 2
	}
	return 0
}
