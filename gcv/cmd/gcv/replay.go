package main

import (
	"encoding/json"
	"fmt"
	"go/types"
	"math/big"
	"os"
	"os/exec"
	"path/filepath"
	"regexp"
	"sort"
	"strings"

	"golang.org/x/tools/go/ssa"
)

// Replay of a counterexample on the real code (DESIGN §4.4).
//
// From the solver's model of a failed obligation gcv takes the parameter values and the value of
// every scalar cell of the receiver object graph, builds that pre-state in an in-package Go test
// (constructor from the registry below, unexported fields poked with reflect+unsafe,
// function-valued configuration replaced by constant stubs carrying the model's values), calls
// the REAL function, dumps the same cells afterwards, and asks the solver whether the observed
// post-state is consistent with the violating symbolic execution (path condition AND negated goal
// AND pre = model AND post = observed). "sat" means the real run follows the failing path and
// violates the clause: the violation is confirmed. Anything else is reported with the suffix
// no-failing-input-found.

var replayCtors = map[string]string{
	"limit.AIMDLimit":      `NewAIMDLimit("replay", 10, 0.9, 1, nil)`,
	"limit.VegasLimit":     `NewDefaultVegasLimit("replay", nil, nil)`,
	"limit.GradientLimit":  `NewGradientLimitWithRegistry("replay", 50, 1, 1000, 0.2, nil, 2.0, 1000, nil, nil)`,
	"limit.Gradient2Limit": `func() *Gradient2Limit { l, _ := NewGradient2Limit("replay", 20, 200, 20, nil, 0.2, 600, nil, nil); return l }()`,
	"limit.SettableLimit":  `NewSettableLimit("replay", 10, nil)`,
	"limit.FixedLimit":     `NewFixedLimit("replay", 10, nil)`,
	"strategy.PreciseStrategy":    `NewPreciseStrategy(10)`,
	"strategy.SimpleStrategy":     `NewSimpleStrategy(10)`,
	"strategy.LookupPartition":    `NewLookupPartitionWithMetricRegistry("p", 0.5, 1, core.EmptyMetricRegistryInstance)`,
	"strategy.PredicatePartition": `NewPredicatePartitionWithMetricRegistry("p", 0.5, func(context.Context) bool { return true }, core.EmptyMetricRegistryInstance)`,
	"measurements.MinimumMeasurement":            `&MinimumMeasurement{}`,
	"measurements.SingleMeasurement":             `&SingleMeasurement{}`,
	"measurements.ExponentialAverageMeasurement": `NewExponentialAverageMeasurement(100, 10)`,
	"measurements.ImmutableSampleWindow":         `NewDefaultImmutableSampleWindow()`,
	"measurements.SimpleExponentialMovingAverage": `func() *SimpleExponentialMovingAverage { m, _ := NewSimpleExponentialMovingAverage(0.5); return m }()`,
	"measurements.SimpleMovingVariance":        `func() *SimpleMovingVariance { m, _ := NewSimpleMovingVariance(0.5, 0.5); return m }()`,
	"measurements.WindowlessMovingPercentile":  `func() *WindowlessMovingPercentile { m, _ := NewWindowlessMovingPercentile(0.5, 1, 0.5, 0.5); return m }()`,
	"limit.WindowedLimit": `func() *WindowedLimit { l, _ := NewWindowedLimit("replay", 1000000000, 1000000000, 10, 100000, NewSettableLimit("d", 10, nil), nil); return l }()`,
	"limit.TracedLimit":   `NewTracedLimit(NewSettableLimit("d", 10, nil), NoopLimitLogger{})`,
}

var replayImports = map[string]string{
	"strategy": "\t\"context\"\n\t\"github.com/platinummonkey/go-concurrency-limits/core\"\n",
}

type replayCell struct {
	GoPath string // "estimatedLimit", "rttNoLoad.value"
	Pre    string // SMT term of the pre-state value
	Post   string // SMT term of the post-state value on the failing path
	Sort   string
	Kind   string // int, float, bool
	PreVal string // model value (SMT literal)
}

type ReplayResult struct {
	Attempted bool   `json:"attempted"`
	Confirmed bool   `json:"confirmed"`
	Reason    string `json:"reason"`
	Test      string `json:"generated_test,omitempty"`
	Output    string `json:"real_code_output,omitempty"`
	Cells     []map[string]string `json:"cells,omitempty"`
	preAsserts []string          // model pre-state as SMT equalities (shared symbols of the function)
	observed   map[string]string // GoPath -> "kind value" dumped after the real run
	recvTerm   string
}

func namedOfRecv(fn *ssa.Function) *types.Named {
	if fn.Signature.Recv() == nil {
		return nil
	}
	t := fn.Signature.Recv().Type()
	if p, ok := t.(*types.Pointer); ok {
		t = p.Elem()
	}
	n, _ := t.(*types.Named)
	return n
}

// collectCells enumerates the scalar cells reachable from ref (a term) of struct type nt.
// ref is the object's reference in the pre-state, postRef in the final state (they differ when a
// pointer field was reassigned on the path).
func collectCells(p *Prog, o *Obligation, nt *types.Named, ref, postRef, goPrefix string, depth int, out *[]replayCell) {
	st, ok := nt.Underlying().(*types.Struct)
	if !ok {
		return
	}
	tk := typeKey(nt)
	declared := func(arr string) bool { return strings.Contains(o.DeclText, "(declare-const H0."+arr+" ") }
	final := func(arr string) string {
		if t, ok := o.Final[arr]; ok {
			return t
		}
		return "H0." + arr
	}
	for i := 0; i < st.NumFields(); i++ {
		f := st.Field(i)
		ft := types.Unalias(f.Type())
		arr := sanitize(tk + "." + f.Name())
		gp := goPrefix + f.Name()
		switch {
		case isInteger(ft) || isBool(ft) || isFloat(ft):
			if !declared(arr) {
				continue
			}
			kind, sort := "int", "Int"
			if isBool(ft) {
				kind, sort = "bool", "Bool"
			} else if isFloat(ft) {
				kind, sort = "float", "F"
			}
			*out = append(*out, replayCell{GoPath: gp, Pre: "(select H0." + arr + " " + ref + ")", Post: "(select " + final(arr) + " " + postRef + ")", Sort: sort, Kind: kind})
		default:
			if depth <= 0 {
				continue
			}
			if pt, ok := ft.Underlying().(*types.Pointer); ok {
				if sub, ok := pt.Elem().(*types.Named); ok && inRepo(sub) && declared(arr) {
					collectCells(p, o, sub, "(select H0."+arr+" "+ref+")", "(select "+final(arr)+" "+postRef+")", gp+".", depth-1, out)
				}
				// pointer to a basic cell (SimpleStrategy)
				if b, ok := pt.Elem().Underlying().(*types.Basic); ok && b.Info()&types.IsInteger != 0 && declared(arr) {
					cell := sanitize(typeKey(pt.Elem()))
					if declared(cell) {
						sub := "(select H0." + arr + " " + ref + ")"
						psub := "(select " + final(arr) + " " + postRef + ")"
						*out = append(*out, replayCell{GoPath: gp + ".*", Pre: "(select H0." + cell + " " + sub + ")", Post: "(select " + final(cell) + " " + psub + ")", Sort: "Int", Kind: "int"})
					}
				}
			}
			if isIface(ft) {
				if ts, ok := p.specs.Types[tk]; ok {
					if dt, ok := ts.DynType[f.Name()]; ok {
						if t, err := p.lookupType(dt); err == nil {
							if pt, ok := t.(*types.Pointer); ok {
								if sub, ok := pt.Elem().(*types.Named); ok && declared(arr+"_v") {
									collectCells(p, o, sub, "(select H0."+arr+"_v "+ref+")", "(select "+final(arr+"_v")+" "+postRef+")", gp+".", depth-1, out)
								}
							}
						}
					}
				}
			}
		}
	}
}

var pureAppRe = regexp.MustCompile(`\(pure\.[A-Za-z0-9_./]+\.0 `)

// pureApps finds the applications of pure (field-contract) functions in the obligation text.
func pureApps(text string) []string {
	var out []string
	seen := map[string]bool{}
	for _, loc := range pureAppRe.FindAllStringIndex(text, -1) {
		d := 0
		for j := loc[0]; j < len(text); j++ {
			if text[j] == '(' {
				d++
			} else if text[j] == ')' {
				d--
				if d == 0 {
					app := text[loc[0] : j+1]
					if !seen[app] {
						seen[app] = true
						out = append(out, app)
					}
					break
				}
			}
		}
	}
	return out
}

func getValues(o *Obligation, terms []string, wd string) (map[string]string, error) {
	return getValuesT(o, terms, wd, 20)
}

func getValuesT(o *Obligation, terms []string, wd string, timeoutS int) (map[string]string, error) {
	f := filepath.Join(wd, "getvalue.smt2")
	text := smtText(o, true)
	text = strings.Replace(text, "(check-sat)\n(get-model)\n", "", 1)
	var b strings.Builder
	b.WriteString(text)
	b.WriteString("(check-sat)\n")
	for _, t := range terms {
		b.WriteString("(get-value (" + t + "))\n")
	}
	os.WriteFile(f, []byte(b.String()), 0o644)
	out, _ := exec.Command("z3-new", "-smt2", fmt.Sprintf("-T:%d", timeoutS), f).CombinedOutput()
	lines := strings.Split(string(out), "\n")
	if len(lines) == 0 || strings.TrimSpace(lines[0]) != "sat" {
		// try the solver that found the model
		out, _ = exec.Command("cvc5", "--lang=smt2", "--produce-models", fmt.Sprintf("--tlimit=%d", timeoutS*1000), f).CombinedOutput()
		lines = strings.Split(string(out), "\n")
		if len(lines) == 0 || strings.TrimSpace(lines[0]) != "sat" {
			return nil, fmt.Errorf("model not reproducible for get-value: %s", truncate(string(out), 200))
		}
	}
	rest := strings.Join(lines[1:], " ")
	vals := map[string]string{}
	// each answer is ((term value))
	items := splitSexp(rest)
	for i, it := range items {
		if i >= len(terms) {
			break
		}
		inner := strings.TrimSpace(it)
		if !strings.HasPrefix(inner, "((") {
			continue
		}
		inner = inner[1 : len(inner)-1]
		parts := splitSexp(inner[1 : len(inner)-1])
		if len(parts) >= 2 {
			vals[terms[i]] = strings.Join(parts[1:], " ")
		}
	}
	return vals, nil
}

// smtNumToGo converts an SMT numeral/rational/float-datatype value to a Go literal.
func smtIntToGo(v string) (string, bool) {
	v = strings.TrimSpace(v)
	if strings.HasPrefix(v, "(- ") {
		return "-" + strings.TrimSuffix(strings.TrimPrefix(v, "(- "), ")"), true
	}
	if _, ok := new(big.Int).SetString(v, 10); ok {
		return v, true
	}
	return "", false
}

func smtRealToRat(v string) (*big.Rat, bool) {
	v = strings.TrimSpace(v)
	neg := false
	if strings.HasPrefix(v, "(- ") {
		neg = true
		v = strings.TrimSuffix(strings.TrimPrefix(v, "(- "), ")")
	}
	var r *big.Rat
	if strings.HasPrefix(v, "(/ ") {
		parts := strings.Fields(strings.TrimSuffix(strings.TrimPrefix(v, "(/ "), ")"))
		if len(parts) != 2 {
			return nil, false
		}
		a, ok1 := new(big.Rat).SetString(parts[0])
		b, ok2 := new(big.Rat).SetString(parts[1])
		if !ok1 || !ok2 || b.Sign() == 0 {
			return nil, false
		}
		r = new(big.Rat).Quo(a, b)
	} else {
		var ok bool
		r, ok = new(big.Rat).SetString(v)
		if !ok {
			return nil, false
		}
	}
	if neg {
		r.Neg(r)
	}
	return r, true
}

func smtFloatToGo(v string) (string, bool) {
	v = strings.TrimSpace(v)
	switch v {
	case "nan":
		return "math.NaN()", true
	case "pinf":
		return "math.Inf(1)", true
	case "ninf":
		return "math.Inf(-1)", true
	}
	if strings.HasPrefix(v, "(fin ") {
		r, ok := smtRealToRat(strings.TrimSuffix(strings.TrimPrefix(v, "(fin "), ")"))
		if !ok {
			return "", false
		}
		f, _ := r.Float64()
		return fmt.Sprintf("%v", f), true
	}
	return "", false
}

const replaySupport = `
func gcvField(root reflect.Value, path string) (reflect.Value, bool) {
	cur := root
	for _, seg := range strings.Split(path, ".") {
		for cur.Kind() == reflect.Ptr || cur.Kind() == reflect.Interface {
			if cur.IsNil() {
				if cur.Kind() == reflect.Ptr && cur.CanSet() {
					cur.Set(reflect.New(cur.Type().Elem()))
				} else {
					return reflect.Value{}, false
				}
			}
			cur = cur.Elem()
		}
		if seg == "*" {
			continue
		}
		if cur.Kind() != reflect.Struct {
			return reflect.Value{}, false
		}
		f := cur.FieldByName(seg)
		if !f.IsValid() {
			return reflect.Value{}, false
		}
		if !f.CanAddr() {
			return reflect.Value{}, false
		}
		cur = reflect.NewAt(f.Type(), unsafe.Pointer(f.UnsafeAddr())).Elem()
	}
	for cur.Kind() == reflect.Ptr {
		if cur.IsNil() {
			return reflect.Value{}, false
		}
		cur = cur.Elem()
	}
	return cur, true
}

func gcvSet(root interface{}, path string, v interface{}) {
	f, ok := gcvField(reflect.ValueOf(root), path)
	if !ok {
		fmt.Printf("GCV-SETFAIL %s\n", path)
		return
	}
	switch x := v.(type) {
	case int64:
		if f.Kind() >= reflect.Uint && f.Kind() <= reflect.Uintptr {
			f.SetUint(uint64(x))
		} else {
			f.SetInt(x)
		}
	case float64:
		f.SetFloat(x)
	case bool:
		f.SetBool(x)
	}
}

func gcvConstFunc(root interface{}, path string, results ...interface{}) {
	f, ok := gcvField(reflect.ValueOf(root), path)
	if !ok || f.Kind() != reflect.Func {
		fmt.Printf("GCV-SETFAIL %s\n", path)
		return
	}
	ft := f.Type()
	fn := reflect.MakeFunc(ft, func(args []reflect.Value) []reflect.Value {
		out := make([]reflect.Value, ft.NumOut())
		for i := range out {
			out[i] = reflect.New(ft.Out(i)).Elem()
			switch x := results[i].(type) {
			case int64:
				out[i].SetInt(x)
			case float64:
				out[i].SetFloat(x)
			}
		}
		return out
	})
	f.Set(fn)
}

func gcvDump(root interface{}, path string) {
	f, ok := gcvField(reflect.ValueOf(root), path)
	if !ok {
		fmt.Printf("GCV-DUMP %s unreachable\n", path)
		return
	}
	switch f.Kind() {
	case reflect.Float64, reflect.Float32:
		x := f.Float()
		switch {
		case math.IsNaN(x):
			fmt.Printf("GCV-DUMP %s float nan\n", path)
		case math.IsInf(x, 1):
			fmt.Printf("GCV-DUMP %s float pinf\n", path)
		case math.IsInf(x, -1):
			fmt.Printf("GCV-DUMP %s float ninf\n", path)
		default:
			fmt.Printf("GCV-DUMP %s float %s\n", path, new(big.Rat).SetFloat64(x).String())
		}
	case reflect.Bool:
		fmt.Printf("GCV-DUMP %s bool %v\n", path, f.Bool())
	case reflect.Uint, reflect.Uint8, reflect.Uint16, reflect.Uint32, reflect.Uint64:
		fmt.Printf("GCV-DUMP %s int %d\n", path, f.Uint())
	default:
		fmt.Printf("GCV-DUMP %s int %d\n", path, f.Int())
	}
}
`

func attemptReplay(p *Prog, prop string, o *Obligation) ReplayResult {
	res := ReplayResult{}
	fn, ok := p.fns[o.Func]
	if !ok {
		res.Reason = "function not found"
		return res
	}
	nt := namedOfRecv(fn)
	if nt == nil {
		res.Reason = "replay supports methods on repository types only"
		return res
	}
	ctor, ok := replayCtors[typeKey(nt)]
	if !ok {
		res.Reason = "no replay constructor registered for " + typeKey(nt)
		return res
	}
	recv, ok := o.Inputs[fn.Params[0].Name()]
	if !ok || len(recv.L) != 1 {
		res.Reason = "receiver value not recorded"
		return res
	}
	var cells []replayCell
	collectCells(p, o, nt, recv.L[0], recv.L[0], "", 2, &cells)
	wd, err := os.MkdirTemp("", "gcv-replay-")
	if err != nil {
		res.Reason = err.Error()
		return res
	}
	defer os.RemoveAll(wd)
	// model values
	var terms []string
	for _, c := range cells {
		terms = append(terms, c.Pre)
	}
	var paramNames []string
	for _, prm := range fn.Params[1:] {
		paramNames = append(paramNames, prm.Name())
		if v, ok := o.Inputs[prm.Name()]; ok {
			terms = append(terms, v.L...)
		}
	}
	apps := pureApps(strings.Join(o.PC, "\n") + o.Goal)
	terms = append(terms, apps...)
	var vals map[string]string
	// err declared above
	if o.Kind == "conform" {
		// conformance sampling prefers moderate magnitudes: at 1e17 float64 rounding (A1, outside the
		// model by assumption) decides comparisons and the real run legitimately takes another path
		q := *o
		q.PC = append([]string(nil), o.PC...)
		for _, c := range cells {
			switch c.Kind {
			case "int":
				q.PC = append(q.PC, "(and (<= (- 1048576) "+c.Pre+") (<= "+c.Pre+" 1048576))")
			case "float":
				q.PC = append(q.PC, "(=> (isfin "+c.Pre+") (and (<= (- 1048576.0) (fv "+c.Pre+")) (<= (fv "+c.Pre+") 1048576.0)))")
			}
		}
		for _, prm := range fn.Params[1:] {
			if v, ok := o.Inputs[prm.Name()]; ok && len(v.L) == 1 && isInteger(prm.Type()) {
				q.PC = append(q.PC, "(and (<= (- 1048576) "+v.L[0]+") (<= "+v.L[0]+" 1048576))")
			}
		}
		vals, err = getValuesT(&q, terms, wd, 2)
	}
	if vals == nil {
		vals, err = getValues(o, terms, wd)
	}
	if err != nil {
		res.Reason = err.Error()
		return res
	}
	res.Attempted = true
	// build the test
	pkgDir := ""
	if fn.Pkg != nil {
		pkgDir = strings.TrimPrefix(fn.Pkg.Pkg.Path(), modulePath+"/")
	}
	pkgName := fn.Pkg.Pkg.Name()
	var b strings.Builder
	b.WriteString("package " + pkgName + "\n\nimport (\n\t\"fmt\"\n\t\"math\"\n\t\"math/big\"\n\t\"reflect\"\n\t\"strings\"\n\t\"testing\"\n\t\"unsafe\"\n")
	extra := replayImports[pkgDir]
	b.WriteString(extra)
	b.WriteString(")\n\nvar _ = math.NaN\nvar _ = big.NewRat\nvar _ = strings.Split\nvar _ unsafe.Pointer\n")
	if strings.Contains(extra, "/core\"") {
		b.WriteString("var _ core.Strategy\n")
	}
	if strings.Contains(extra, "\"context\"") {
		b.WriteString("var _ = context.Background\n")
	}
	b.WriteString(replaySupport)
	b.WriteString("\nfunc TestGcvReplay(t *testing.T) {\n\tdefer func() {\n\t\tif r := recover(); r != nil {\n\t\t\tfmt.Printf(\"GCV-PANIC %v\\n\", r)\n\t\t}\n\t}()\n")
	b.WriteString("\tobj := " + ctor + "\n")
	var preAsserts []string
	for i := range cells {
		c := &cells[i]
		v, ok := vals[c.Pre]
		if !ok {
			continue
		}
		c.PreVal = v
		switch c.Kind {
		case "int":
			if g, ok := smtIntToGo(v); ok {
				b.WriteString(fmt.Sprintf("\tgcvSet(obj, %q, int64(%s))\n", c.GoPath, g))
				preAsserts = append(preAsserts, "(= "+c.Pre+" "+v+")")
			}
		case "bool":
			b.WriteString(fmt.Sprintf("\tgcvSet(obj, %q, %s)\n", c.GoPath, v))
			preAsserts = append(preAsserts, "(= "+c.Pre+" "+v+")")
		case "float":
			if g, ok := smtFloatToGo(v); ok {
				b.WriteString(fmt.Sprintf("\tgcvSet(obj, %q, float64(%s))\n", c.GoPath, g))
				preAsserts = append(preAsserts, "(= "+c.Pre+" "+v+")")
			}
		}
	}
	// constant stubs for function-valued configuration
	st := nt.Underlying().(*types.Struct)
	for i := 0; i < st.NumFields(); i++ {
		f := st.Field(i)
		sig, ok := f.Type().Underlying().(*types.Signature)
		if !ok || sig.Results().Len() != 1 {
			continue
		}
		specName := typeKey(nt) + "." + f.Name()
		if sp, ok := p.specs.Funcs[specName]; !ok || !sp.Pure {
			continue
		}
		prefix := "(pure." + sanitize(specName) + ".0 "
		var vs []string
		for _, a := range apps {
			if strings.HasPrefix(a, prefix) {
				if v, ok := vals[a]; ok {
					vs = append(vs, v)
				}
			}
		}
		if len(vs) == 0 {
			continue
		}
		same := true
		for _, v := range vs[1:] {
			if v != vs[0] {
				same = false
			}
		}
		if !same {
			res.Reason = "configuration function " + f.Name() + " takes different values in the model; constant stub not possible"
			continue
		}
		if isFloat(sig.Results().At(0).Type()) {
			if g, ok := smtFloatToGo(vs[0]); ok {
				b.WriteString(fmt.Sprintf("\tgcvConstFunc(obj, %q, float64(%s))\n", f.Name(), g))
			}
		} else if g, ok := smtIntToGo(vs[0]); ok {
			b.WriteString(fmt.Sprintf("\tgcvConstFunc(obj, %q, int64(%s))\n", f.Name(), g))
		}
	}
	// call
	var args []string
	for i, prm := range fn.Params[1:] {
		v, ok := o.Inputs[prm.Name()]
		pt := prm.Type()
		switch {
		case ok && isInteger(pt) && len(v.L) == 1:
			g, ok2 := smtIntToGo(vals[v.L[0]])
			if !ok2 {
				g = "0"
			}
			args = append(args, types.TypeString(pt, func(*types.Package) string { return "" })+"("+g+")")
			preAsserts = append(preAsserts, "(= "+v.L[0]+" "+vals[v.L[0]]+")")
		case ok && isBool(pt) && len(v.L) == 1:
			bv := vals[v.L[0]]
			if bv != "true" {
				bv = "false"
			}
			args = append(args, bv)
			preAsserts = append(preAsserts, "(= "+v.L[0]+" "+bv+")")
		case ok && isFloat(pt) && len(v.L) == 1:
			g, ok2 := smtFloatToGo(vals[v.L[0]])
			if !ok2 {
				g = "0"
			}
			args = append(args, "float64("+g+")")
			preAsserts = append(preAsserts, "(= "+v.L[0]+" "+vals[v.L[0]]+")")
		case typeKey(pt) == "context.Context":
			args = append(args, "context.Background()")
		default:
			res.Reason = fmt.Sprintf("parameter %d (%s) of type %s cannot be constructed", i, prm.Name(), pt)
			return res
		}
	}
	if strings.Contains(strings.Join(args, ","), "context.Background") && !strings.Contains(extra, "\"context\"") {
		s := b.String()
		s = strings.Replace(s, "import (\n", "import (\n\t\"context\"\n", 1)
		b.Reset()
		b.WriteString(s)
	}
	b.WriteString("\tfmt.Println(\"GCV-CALL\")\n")
	call := "obj." + fn.Name() + "(" + strings.Join(args, ", ") + ")"
	if fn.Signature.Results().Len() > 0 {
		b.WriteString("\tr := fmt.Sprint(" + call + ")\n\tfmt.Println(\"GCV-RESULT\", r)\n")
	} else {
		b.WriteString("\t" + call + "\n")
	}
	for _, c := range cells {
		b.WriteString(fmt.Sprintf("\tgcvDump(obj, %q)\n", c.GoPath))
	}
	b.WriteString("\tfmt.Println(\"GCV-DONE\")\n}\n")
	res.Test = b.String()
	testFile := filepath.Join(wd, "zz_gcv_replay_test.go")
	os.WriteFile(testFile, []byte(res.Test), 0o644)
	ov := map[string]map[string]string{"Replace": {filepath.Join(p.repo, pkgDir, "zz_gcv_replay_test.go"): testFile}}
	ovb, _ := json.Marshal(ov)
	ovFile := filepath.Join(wd, "ov.json")
	os.WriteFile(ovFile, ovb, 0o644)
	cmd := exec.Command("go", "test", "-overlay", ovFile, "-vet=off", "-count=1", "-timeout", "60s", "-run", "^TestGcvReplay$", "-v", "./"+pkgDir+"/")
	cmd.Dir = p.repo
	cmd.Env = goEnv()
	outb, _ := cmd.CombinedOutput()
	res.Output = truncate(string(outb), 4000)
	if strings.Contains(res.Output, "GCV-PANIC") {
		// a panic of the real code from the model state: for panic-freedom obligations this is the confirmation
		if o.Kind == "safety" {
			res.Confirmed = true
			res.Reason = "the real function panics from the model's pre-state"
			return res
		}
	}
	if !strings.Contains(res.Output, "GCV-DONE") {
		if res.Reason == "" {
			res.Reason = "replay test did not complete"
		}
		return res
	}
	// observed post-state
	var postAsserts []string
	observed := map[string]string{}
	for _, line := range strings.Split(string(outb), "\n") {
		fs := strings.Fields(line)
		if len(fs) >= 4 && fs[0] == "GCV-DUMP" {
			observed[fs[1]] = fs[2] + " " + fs[3]
		}
	}
	for _, c := range cells {
		ob := observed[c.GoPath]
		res.Cells = append(res.Cells, map[string]string{"cell": c.GoPath, "pre_model": c.PreVal, "post_observed": ob})
	}
	postAsserts = postAssertsFor(cells, observed)
	res.preAsserts, res.observed, res.recvTerm = preAsserts, observed, recv.L[0]
	q := *o
	q.PC = append(append(append([]string(nil), o.PC...), preAsserts...), postAsserts...)
	f := filepath.Join(wd, "consistency.smt2")
	os.WriteFile(f, []byte(smtText(&q, true)), 0o644)
	best, _ := solvePortfolio(f, 20, false)
	if d := os.Getenv("GCV_DEBUG_REPLAY"); d != "" {
		b, _ := os.ReadFile(f)
		os.WriteFile(filepath.Join(d, fmt.Sprintf("consistency_%s_%d.smt2", unsafeName.ReplaceAllString(o.Func, "_"), o.PathID)), b, 0o644)
		os.WriteFile(filepath.Join(d, fmt.Sprintf("test_%s_%d.go.txt", unsafeName.ReplaceAllString(o.Func, "_"), o.PathID)), []byte(res.Test+"\n/*\n"+res.Output+"\n*/\n"), 0o644)
	}
	switch best.Status {
	case "sat":
		res.Confirmed = true
		res.Reason = "the real function, run from the model's pre-state, ends in a state consistent with the violating symbolic path and violates the clause"
	case "unsat":
		res.Reason = "the real run from the model's pre-state does not follow the violating symbolic execution (abstraction artefact or non-deterministic input); see cells"
	default:
		res.Reason = "consistency query undecided"
	}
	sort.Slice(res.Cells, func(i, j int) bool { return res.Cells[i]["cell"] < res.Cells[j]["cell"] })
	return res
}

// postAssertsFor: the observed post-state of the real run as constraints on the symbolic final
// state of one path (floats with a relative tolerance: the model computes in exact reals, A1).
func postAssertsFor(cells []replayCell, observed map[string]string) []string {
	var postAsserts []string
	for _, c := range cells {
		ob, ok := observed[c.GoPath]
		if !ok {
			continue
		}
		kv := strings.SplitN(ob, " ", 2)
		switch kv[0] {
		case "int":
			n, ok := new(big.Int).SetString(kv[1], 10)
			if !ok {
				continue
			}
			lit := n.String()
			if n.Sign() < 0 {
				lit = "(- " + new(big.Int).Neg(n).String() + ")"
			}
			postAsserts = append(postAsserts, "(= "+c.Post+" "+lit+")")
		case "bool":
			postAsserts = append(postAsserts, "(= "+c.Post+" "+kv[1]+")")
		case "float":
			switch kv[1] {
			case "nan", "pinf", "ninf":
				postAsserts = append(postAsserts, "(= "+c.Post+" "+kv[1]+")")
			default:
				r, ok := new(big.Rat).SetString(kv[1])
				if !ok {
					continue
				}
				// tolerance for rounding: the model computes in exact reals (A1)
				lit := ratString(r)
				tol := "(* 0.000001 (ite (>= " + lit + " 0.0) (+ 1.0 " + lit + ") (- 1.0 " + lit + ")))"
				postAsserts = append(postAsserts, "(and (isfin "+c.Post+") (<= (- "+lit+" "+tol+") (fv "+c.Post+")) (<= (fv "+c.Post+") (+ "+lit+" "+tol+")))")
			}
		}
	}
	return postAsserts
}

// consistentWithPath: does the symbolic return path o2 (of the same function, same symbol table)
// admit the concrete execution described by r (pre-state and observed post-state)?
func consistentWithPath(p *Prog, o2 *Obligation, nt *types.Named, r *ReplayResult) string {
	var cells []replayCell
	collectCells(p, o2, nt, r.recvTerm, r.recvTerm, "", 2, &cells)
	q := *o2
	q.PC = append(append(append([]string(nil), o2.PC...), r.preAsserts...), postAssertsFor(cells, r.observed)...)
	wd, err := os.MkdirTemp("", "gcv-conform-")
	if err != nil {
		return "unknown"
	}
	defer os.RemoveAll(wd)
	f := filepath.Join(wd, "consistency.smt2")
	os.WriteFile(f, []byte(smtText(&q, true)), 0o644)
	best, _ := solvePortfolio(f, 20, false)
	return best.Status
}

func cmdReplay(path string) int {
	b, err := os.ReadFile(path)
	if err != nil {
		fmt.Fprintln(os.Stderr, err)
		return 2
	}
	var rec map[string]interface{}
	if err := json.Unmarshal(b, &rec); err != nil {
		fmt.Fprintln(os.Stderr, err)
		return 2
	}
	prop, _ := rec["property"].(string)
	obl, _ := rec["obligation"].(string)
	fmt.Printf("replay of %s (property %s): re-running the check that produced it\n", obl, prop)
	if rp, ok := rec["replay"].(map[string]interface{}); ok {
		if t, ok := rp["generated_test"].(string); ok && t != "" {
			fmt.Println("--- generated test (run in-package with go test -overlay) ---")
			fmt.Println(t)
		}
	}
	if prop == "" {
		return 2
	}
	return cmdCheck(prop, "quick", false)
}
