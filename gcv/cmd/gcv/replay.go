package main

import "fmt"

func cmdReplay(path string) int {
	fmt.Println("replay:", path)
	return 0
}
