package main

import (
	"encoding/json"
	"fmt"
	"os"
	"path/filepath"
	"regexp"
	"sort"
	"strings"
)

func writeJSON(path string, v interface{}) int {
	b, err := json.MarshalIndent(v, "", " ")
	if err != nil {
		fmt.Fprintln(os.Stderr, err)
		return 2
	}
	if err := os.WriteFile(path, append(b, '\n'), 0o644); err != nil {
		fmt.Fprintln(os.Stderr, err)
		return 2
	}
	return 0
}

var defineFunRe = regexp.MustCompile(`\(define-fun\s+(\S+)\s+\(\)\s+(\S+|\([^()]*(?:\([^()]*\))*[^()]*\))\s+`)

// parseModel extracts constant definitions from a solver model (z3 and cvc5 print
// (define-fun name () Sort value)).
func parseModel(model string) map[string]string {
	out := map[string]string{}
	i := 0
	for {
		j := strings.Index(model[i:], "(define-fun ")
		if j < 0 {
			break
		}
		start := i + j
		// find matching paren
		depth := 0
		end := -1
		for k := start; k < len(model); k++ {
			if model[k] == '(' {
				depth++
			} else if model[k] == ')' {
				depth--
				if depth == 0 {
					end = k
					break
				}
			}
		}
		if end < 0 {
			break
		}
		body := model[start+len("(define-fun ") : end]
		i = end
		fields := strings.Fields(body)
		if len(fields) < 4 || fields[1] != "()" {
			continue
		}
		name := fields[0]
		// sort may be parenthesised
		rest := strings.TrimSpace(body[len(name):])
		rest = strings.TrimSpace(strings.TrimPrefix(rest, "()"))
		// skip sort
		var val string
		if strings.HasPrefix(rest, "(") {
			d := 0
			for k := 0; k < len(rest); k++ {
				if rest[k] == '(' {
					d++
				} else if rest[k] == ')' {
					d--
					if d == 0 {
						val = strings.TrimSpace(rest[k+1:])
						break
					}
				}
			}
		} else {
			sp := strings.IndexAny(rest, " \n\t")
			if sp < 0 {
				continue
			}
			val = strings.TrimSpace(rest[sp:])
		}
		out[name] = strings.Join(strings.Fields(val), " ")
	}
	return out
}

// modelInputs renders the model values of the function's parameters.
func modelInputs(o *Obligation) string {
	m := parseModel(o.Result.Model)
	var names []string
	for n := range o.Inputs {
		names = append(names, n)
	}
	sort.Strings(names)
	var parts []string
	for _, n := range names {
		v := o.Inputs[n]
		var ls []string
		for _, l := range v.L {
			if val, ok := m[l]; ok {
				ls = append(ls, val)
			} else {
				ls = append(ls, "?")
			}
		}
		parts = append(parts, n+"="+strings.Join(ls, ","))
	}
	return strings.Join(parts, " ")
}

var _ = filepath.Join
