package main

import (
	"context"
	"os"
	"fmt"
	"go/types"
	"strings"

	"golang.org/x/tools/go/ssa"
)

func (x *Exec) clearCache(s *State) { s.cache = nil }

func isLit(t string) bool {
	if t == "" {
		return false
	}
	for _, c := range t {
		if c < '0' || c > '9' {
			return false
		}
	}
	return true
}

// callWith performs a call. It returns true if a frame was pushed (inlining); in that case
// the result is delivered when the callee returns.
func (x *Exec) callWith(s *State, cc *ssa.CallCommon, args []Val, fnv *Val, instr ssa.Value, advance bool, pos string) bool {
	setRes := func(v Val) {
		if instr != nil {
			v2 := v
			v2.Typ = instr.Type()
			s.top().regs[instr] = v2
		}
	}
	if cc.IsInvoke() {
		var recv Val
		if fnv != nil {
			recv = *fnv
		} else {
			recv = x.val(s, cc.Value)
		}
		return x.invoke(s, cc, recv, args, instr, advance, setRes)
	}
	switch callee := cc.Value.(type) {
	case *ssa.Builtin:
		setRes(x.builtin(s, callee, cc, args))
		return false
	case *ssa.Function:
		return x.callStatic(s, callee, args, "", instr, advance, setRes)
	case *ssa.MakeClosure:
		fv := x.val(s, callee)
		return x.callStatic(s, callee.Fn.(*ssa.Function), args, fv.L[1], instr, advance, setRes)
	}
	var fv Val
	if fnv != nil {
		fv = *fnv
	} else {
		fv = x.val(s, cc.Value)
	}
	code := fv.L[0]
	if k, ok := s.known[code]; ok {
		code = k
	}
	if isLit(code) && code != "0" {
		var id int
		fmt.Sscan(code, &id)
		if f, ok := x.P.fnByID[id]; ok {
			return x.callStatic(s, f, args, fv.L[1], instr, advance, setRes)
		}
	}
	// the code is not syntactically known: ask the solver whether the path fixes it
	if f := x.resolveCode(s, fv.L[0], cc.Signature()); f != nil {
		return x.callStatic(s, f, args, fv.L[1], instr, advance, setRes)
	}
	// unknown code: field contract or generic
	origin := x.funcValueOrigin(cc.Value)
	x.curOwner = nil
	if u, ok := cc.Value.(*ssa.UnOp); ok {
		if fa, ok := u.X.(*ssa.FieldAddr); ok {
			ov := x.val(s, fa.X)
			if ov.Loc == nil {
				x.curOwner = &ov
			}
		}
	}
	setRes(x.callUnknown(s, "funcvalue:"+origin, origin, nil, &fv, cc.Signature(), args))
	x.curOwner = nil
	return false
}

func (x *Exec) invoke(s *State, cc *ssa.CallCommon, recv Val, args []Val, instr ssa.Value, advance bool, setRes func(Val)) bool {
	ifaceKey := typeKey(cc.Value.Type())
	mname := cc.Method.Name()
	// sync.Locker (sync.Cond.L)
	if ifaceKey == "sync.Locker" {
		key := recv.L[1] + "|*"
		switch mname {
		case "Lock":
			s.held[key] = heldLock{Write: true}
		case "Unlock":
			delete(s.held, key)
		}
		setRes(Val{})
		return false
	}
	dyn := recv.L[0]
	if k, ok := s.known[dyn]; ok {
		dyn = k
	}
	if isLit(dyn) && dyn != "0" {
		var id int
		fmt.Sscan(dyn, &id)
		if t, ok := x.P.typeByID[id]; ok {
			ms := x.P.prog.MethodSets.MethodSet(t)
			sel := ms.Lookup(cc.Method.Pkg(), mname)
			if sel != nil {
				if f := x.P.prog.MethodValue(sel); f != nil {
					// receiver value: pointer payload
					rv := Val{Typ: t}
					if len(leavesOf(t)) == 1 {
						rv.L = []string{recv.L[1]}
					} else {
						rv = zeroVal(t)
					}
					return x.callStatic(s, f, append([]Val{rv}, args...), "", instr, advance, setRes)
				}
			}
		}
	}
	name := ifaceKey + "." + mname
	if x.relMode && name == "limit.Logger.IsDebugEnabled" {
		x.note("relational obligations are discharged for a logger with IsDebugEnabled() == false (the default NoopLimitLogger); the logging branches only add Debugf calls")
		setRes(boolVal("false"))
		return false
	}
	setRes(x.callUnknown(s, name, name, &recv, nil, cc.Signature(), args))
	return false
}

// callUnknown applies an interface/field contract if one exists, otherwise the default
// model: an event is recorded, results are unconstrained, the modelled heap is unchanged (A8).
func (x *Exec) callUnknown(s *State, evName, specName string, recv *Val, fv *Val, sig *types.Signature, args []Val) Val {
	spec := x.P.specs.Funcs[specName]
	x.callCount[evName]++
	if spec == nil {
		res := x.freshResults(s, sig, evName)
		s.addEvent(Event{Name: evName, Recv: recv, Args: args, Res: splitTuple(sig, res)})
		x.note("no contract for " + specName + ": results unconstrained, no effect on modelled heap (A8)")
		x.bindCall(evName, res)
		return res
	}
	if isAssumedContract(x.P, specName) {
		ref := "its implementations in the repository are proved to refine it where a refines clause exists (DESIGN 0.7); other implementations are assumed to"
		if strings.Contains(specName, ":") || !strings.Contains(specName, "core.") {
			ref = "a valid configuration is assumed to satisfy it; the defaults installed by the constructors are proved against it (implements)"
		}
		x.note("assumed contract applied at a dynamic call: " + specName + " (" + ref + ")")
	}
	vars := map[string]Val{}
	if recv != nil {
		vars["this"] = *recv
	}
	if fv != nil {
		vars["#fn"] = *fv
	}
	if x.curOwner != nil {
		vars["owner"] = *x.curOwner
	}
	names := spec.Params
	for i, a := range args {
		if i < len(names) {
			vars[names[i]] = a
		} else if i < sig.Params().Len() && sig.Params().At(i).Name() != "" {
			vars[sig.Params().At(i).Name()] = a
		}
		vars[fmt.Sprintf("arg%d", i)] = a
	}
	if fv != nil {
		// owner object of a field contract is unknown here; field contracts speak about args/results only
	}
	res := x.applySpec(s, spec, evName, vars, recv, fv, sig, args)
	x.bindCall(evName, res)
	return res
}

func splitTuple(sig *types.Signature, v Val) []Val {
	rs := sig.Results()
	if rs.Len() <= 1 {
		if rs.Len() == 0 {
			return nil
		}
		return []Val{{Typ: rs.At(0).Type(), L: v.L, Loc: v.Loc}}
	}
	var out []Val
	off := 0
	for i := 0; i < rs.Len(); i++ {
		n := len(leavesOf(rs.At(i).Type()))
		out = append(out, Val{Typ: rs.At(i).Type(), L: v.L[off : off+n]})
		off += n
	}
	return out
}

func (x *Exec) freshResults(s *State, sig *types.Signature, hint string) Val {
	rs := sig.Results()
	if rs.Len() == 0 {
		return Val{}
	}
	if rs.Len() == 1 {
		return x.freshVal(s, rs.At(0).Type(), "r."+hint)
	}
	return x.freshVal(s, rs, "r."+hint)
}

func (x *Exec) bindCall(name string, res Val) {
	for _, b := range x.spec.Binds {
		if b.Callee == name && b.K == x.callCount[name] {
			x.binds[b.Name] = res
		}
	}
}

// applySpec: assert requires, havoc assigns, assume ensures (DESIGN §2.6).
func (x *Exec) applySpec(s *State, spec *FuncSpec, evName string, vars map[string]Val, recv *Val, fv *Val, sig *types.Signature, args []Val) Val {
	env := &Env{x: x, s: s, vars: vars, heap: s.heap, old: s.heap, events: s.events}
	for _, m := range spec.Maintains {
		v := env.eval(mustParse(m.Text))
		x.emit(s, "pre", shortName(spec.Name)+".inv("+m.Text+")", nil, env.invOf(v, ""), nil)
	}
	for _, c := range spec.Requires {
		g := env.evalBool(c.Expr)
		if mentionsCall(c.Expr, "held") {
			// a lock the callee expects its caller to hold: part of the ownership discipline
			if x.checkOwn {
				x.emit(s, "owns", "callee_requires_lock:"+shortName(spec.Name), x.spec.Owns, g, c)
			}
			continue
		}
		if g == "true" {
			continue
		}
		x.emit(s, "pre", shortName(spec.Name)+"."+c.Label, nil, g, c)
	}
	// values the callee's contract binds to its internal calls are existential witnesses here
	for _, b := range spec.Binds {
		if _, ok := vars[b.Name]; ok || b.Type == "" {
			continue
		}
		if t, err := x.P.lookupType(b.Type); err == nil {
			vars[b.Name] = x.freshVal(s, t, "witness."+b.Name)
		}
	}
	pre := copyHeap(s.heap)
	for _, a := range spec.Assigns {
		x.havocAssign(s, env, a)
	}
	if !spec.HasAssigns && !spec.Pure && x.P.fns[spec.Name] != nil {
		// A contract of a real function without an assigns clause says nothing about its frame:
		// everything may have changed (sound default). Interface and field contracts without a
		// clause keep the documented assumption A8 (no effect on the modelled heap).
		for n := range s.heap {
			sort := x.D.sorts["H0."+n]
			if sort == "" {
				sort = x.D.sorts[s.heap[n]]
			}
			s.heap[n] = x.D.fresh("H."+n, sort)
		}
		x.clearCache(s)
		x.note("call of " + spec.Name + " in " + fnName(x.fn) + ": the callee's contract has no assigns clause, whole heap havocked at the call")
	}
	var res Val
	if spec.Pure && sig.Results().Len() > 0 {
		res = x.pureResult(s, spec, fv, recv, sig, args)
	} else {
		res = x.freshResults(s, sig, shortName(spec.Name))
	}
	rs := splitTuple(sig, res)
	post := &Env{x: x, s: s, vars: map[string]Val{}, heap: s.heap, old: pre, events: s.events, calleePost: true}
	for k, v := range vars {
		post.vars[k] = v
	}
	for i, r := range rs {
		n := sig.Results().At(i).Name()
		if n != "" && n != "_" {
			post.vars[n] = r
		}
		post.vars[fmt.Sprintf("ret%d", i)] = r
	}
	if len(rs) == 1 {
		post.vars["result"] = rs[0]
	}
	s.addEvent(Event{Name: evName, Recv: recv, Args: args, Res: rs})
	post.events = s.events
	for _, c := range spec.Ensures {
		if usesEvents(c.Expr) {
			continue // statements about the callee's own call events are not visible to callers
		}
		g, und := evalClause(post, c.Expr)
		if und != "" {
			s.tainted = "contract of " + spec.Name + ", clause " + c.Label + ": " + und
			x.note("call of " + spec.Name + ": clause " + c.Label + " could not be assumed (" + und + ")")
			continue
		}
		s.assume(g)
	}
	for _, m := range spec.Maintains {
		v := post.eval(mustParse(m.Text))
		s.assume(post.invOf(v, ""))
	}
	for _, m := range spec.Establishes {
		guard := "true"
		target := m.Text
		if i := strings.Index(m.Text, "==>"); i >= 0 {
			guard = post.evalBool(mustParse(strings.TrimSpace(m.Text[:i])))
			target = strings.TrimSpace(m.Text[i+3:])
		}
		v := post.eval(mustParse(target))
		s.assume(sImp(guard, post.invOf(v, "")))
	}
	return res
}

func shortName(n string) string {
	if i := strings.LastIndex(n, "/"); i >= 0 {
		n = n[i+1:]
	}
	return n
}

// pureResult: the result of a pure function is an uninterpreted function of (code, env, args),
// so two runs of a relational product agree on it.
func (x *Exec) pureResult(s *State, spec *FuncSpec, fv *Val, recv *Val, sig *types.Signature, args []Val) Val {
	var argTerms, argSorts []string
	if fv != nil {
		argTerms = append(argTerms, fv.L[0], fv.L[1])
		argSorts = append(argSorts, "Int", "Int")
	}
	if recv != nil {
		argTerms = append(argTerms, recv.L...)
		for range recv.L {
			argSorts = append(argSorts, "Int")
		}
	}
	for i, a := range args {
		ls := leavesOf(sig.Params().At(i).Type())
		for j, lf := range ls {
			argTerms = append(argTerms, a.L[j])
			argSorts = append(argSorts, lf.Sort)
		}
	}
	var rt types.Type = sig.Results()
	if sig.Results().Len() == 1 {
		rt = sig.Results().At(0).Type()
	}
	res := Val{Typ: rt}
	for j, lf := range leavesOf(rt) {
		fname := fmt.Sprintf("pure.%s.%d", sanitize(spec.Name), j)
		x.D.declareFun(fname, "("+strings.Join(argSorts, " ")+") "+lf.Sort)
		if len(argTerms) == 0 {
			res.L = append(res.L, fname)
		} else {
			res.L = append(res.L, "("+fname+" "+strings.Join(argTerms, " ")+")")
		}
	}
	for _, f := range typeRangeFacts(res) {
		s.assume(f)
	}
	return res
}

// callStatic dispatches a call to a known function.
func (x *Exec) callStatic(s *State, fn *ssa.Function, args []Val, env string, instr ssa.Value, advance bool, setRes func(Val)) bool {
	name := fnName(fn)
	if m, ok := builtinModels[name]; ok {
		res := m(x, s, fn, args)
		if name != "time.Now" {
			x.callCount[name]++
			x.bindCall(name, res)
		}
		setRes(res)
		return false
	}
	inModule := (fn.Pkg != nil && strings.HasPrefix(fn.Pkg.Pkg.Path(), modulePath)) || (fn.Pkg == nil && strings.Contains(fn.String(), modulePath))
	if !inModule || len(fn.Blocks) == 0 {
		// library function without a model: generic stub
		x.note("library stub: " + name + " (event recorded, results unconstrained)")
		res := x.freshResults(s, fn.Signature, shortName(name))
		var recv *Val
		if fn.Signature.Recv() != nil && len(args) > 0 {
			recv = &args[0]
		}
		s.addEvent(Event{Name: name, Recv: recv, Args: args, Res: splitTuple(fn.Signature, res)})
		x.callCount[name]++
		x.bindCall(name, res)
		setRes(res)
		return false
	}
	spec := x.P.specs.Funcs[name]
	if spec != nil && !spec.Inline && fn != x.fn && !(x.relMode && contains(x.spec.RelInline, name)) && !contains(x.spec.Inlines, name) {
		vars := map[string]Val{}
		for i, p := range fn.Params {
			if i < len(args) {
				n := p.Name()
				if n != "" && n != "_" {
					vars[n] = args[i]
				}
				vars[fmt.Sprintf("arg%d", i)] = args[i]
				if i == 0 && fn.Signature.Recv() != nil {
					vars["this"] = args[i]
				}
			}
		}
		var fv *Val
		if len(fn.FreeVars) > 0 {
			fvv := Val{Typ: fn.Type(), L: []string{fmt.Sprint(x.P.fnIDs[fn]), env}}
			fv = &fvv
			vars["#env"] = Val{Typ: types.Typ[types.UnsafePointer], L: []string{env}}
			for i, v := range fn.FreeVars {
				b := Val{Typ: v.Type()}
				for _, lf := range leavesOf(v.Type()) {
					b.L = append(b.L, x.heapLoad(s, fmt.Sprintf("env:%s.%d%s", name, i, lf.Suffix), lf.Sort, env))
				}
				vars["&"+v.Name()] = b
				if pt, ok := v.Type().(*types.Pointer); ok {
					vars[v.Name()] = x.loadLoc(s, &Loc{Kind: LocHeap, Base: b.L[0], Path: typeKey(pt.Elem()), Typ: pt.Elem()})
				} else {
					vars[v.Name()] = b
				}
			}
		}
		var recv *Val
		if fn.Signature.Recv() != nil && len(args) > 0 {
			recv = &args[0]
		}
		x.callCount[name]++
		sigArgs := args
		if fn.Signature.Recv() != nil && len(args) > 0 {
			sigArgs = args[1:]
		}
		if spec.Pure {
			// pure static functions: receiver participates as an argument
		}
		res := x.applySpecStatic(s, spec, name, vars, recv, fv, fn, sigArgs)
		x.bindCall(name, res)
		setRes(res)
		return false
	}
	// inline
	if len(s.frames) > 12 {
		unsupported("inlining depth exceeded at %s", name)
	}
	for _, fr := range s.frames {
		if fr.fn == fn {
			unsupported("recursive call of %s", name)
		}
	}
	x.note("inlined: " + name)
	nf := x.newFrame(fn)
	for i, p := range fn.Params {
		nf.regs[p] = args[i]
	}
	for i, v := range fn.FreeVars {
		b := Val{Typ: v.Type()}
		for _, lf := range leavesOf(v.Type()) {
			b.L = append(b.L, x.heapLoad(s, fmt.Sprintf("env:%s.%d%s", name, i, lf.Suffix), lf.Sort, env))
		}
		nf.regs[v] = b
	}
	nf.retTo = instr
	nf.retAdvance = advance
	s.frames = append(s.frames, nf)
	return true
}

func (x *Exec) applySpecStatic(s *State, spec *FuncSpec, name string, vars map[string]Val, recv *Val, fv *Val, fn *ssa.Function, args []Val) Val {
	return x.applySpec(s, spec, name, vars, recv, fv, fn.Signature, args)
}

// ---------------------------------------------------------------- builtins (len, append, ...)

func (x *Exec) builtin(s *State, b *ssa.Builtin, cc *ssa.CallCommon, args []Val) Val {
	switch b.Name() {
	case "len":
		a := args[0]
		switch u := a.Typ.Underlying().(type) {
		case *types.Slice:
			return intVal(a.L[0])
		case *types.Map:
			return intVal(x.heapLoad(s, mapPath(u)+"#len", "Int", a.L[0]))
		case *types.Basic:
			x.D.declareFun("str_len", "(Str) Int")
			r := "(str_len " + a.L[0] + ")"
			s.assume("(>= " + r + " 0)")
			return intVal(r)
		case *types.Chan:
			r := x.D.fresh("chanlen", "Int")
			s.assume("(>= " + r + " 0)")
			return intVal(r)
		}
	case "cap":
		r := x.D.fresh("cap", "Int")
		s.assume("(>= " + r + " " + args[0].L[0] + ")")
		return intVal(r)
	case "append":
		return x.appendOp(s, args[0], args[1])
	case "delete":
		mt := args[0].Typ.Underlying().(*types.Map)
		x.mapDelete(s, mt, args[0].L[0], args[1].L[0])
		return Val{}
	case "close":
		s.addEvent(Event{Name: "chan.close", Recv: &args[0]})
		return Val{}
	case "print", "println":
		return Val{}
	}
	unsupported("builtin %s", b.Name())
	return Val{}
}

func (x *Exec) appendOp(s *State, a, b Val) Val {
	st, ok := a.Typ.Underlying().(*types.Slice)
	if !ok {
		unsupported("append to %s", a.Typ)
	}
	ls := leavesOf(st.Elem())
	if len(b.L) != 1+len(ls) {
		unsupported("append of incompatible slice")
	}
	r := Val{Typ: a.Typ, L: []string{"(+ " + a.L[0] + " " + b.L[0] + ")"}}
	if n, ok := parseIntLit(b.L[0]); ok && n <= 8 {
		for j := range ls {
			arr := a.L[1+j]
			for k := 0; k < n; k++ {
				idx := a.L[0]
				if k > 0 {
					idx = fmt.Sprintf("(+ %s %d)", a.L[0], k)
				}
				arr = "(store " + arr + " " + idx + " (select " + b.L[1+j] + " " + fmt.Sprint(k) + "))"
			}
			r.L = append(r.L, arr)
		}
		return r
	}
	for j, lf := range ls {
		na := x.D.fresh("append", "(Array Int "+lf.Sort+")")
		s.assume("(forall ((ii Int)) (=> (and (<= 0 ii) (< ii " + a.L[0] + ")) (= (select " + na + " ii) (select " + a.L[1+j] + " ii))))")
		s.assume("(forall ((ii Int)) (=> (and (<= 0 ii) (< ii " + b.L[0] + ")) (= (select " + na + " (+ " + a.L[0] + " ii)) (select " + b.L[1+j] + " ii))))")
		r.L = append(r.L, na)
	}
	return r
}

// ---------------------------------------------------------------- ownership (DESIGN §2.7)

func (x *Exec) classify(path string) (ts *TypeSpec, typeName, field string) {
	// longest prefix of path that names a specified type
	parts := strings.Split(path, ".")
	for i := len(parts) - 1; i >= 1; i-- {
		tn := strings.Join(parts[:i], ".")
		if t, ok := x.P.specs.Types[tn]; ok {
			return t, tn, parts[i]
		}
	}
	return nil, "", ""
}

func (x *Exec) checkAccess(s *State, loc *Loc, write bool, in ssa.Instruction) {
	if !x.checkOwn || loc.Kind != LocHeap {
		return
	}
	ts, tn, field := x.classify(loc.Path)
	if ts == nil {
		if strings.HasPrefix(loc.Path, "glob:") {
			// package-level variables are shared by every goroutine and guarded by nothing:
			// reading is fine, writing outside package initialisation is not
			if write && !strings.HasSuffix(fnName(x.fn), ".init") {
				x.emit(s, "owns", strings.TrimPrefix(loc.Path, "glob:")+"_package_variable_written", x.spec.Owns, "false", nil)
			}
			return
		}
		if !x.isFresh(s, loc.Base) {
			x.note("access to a cell outside the classified struct types (captured variable / copied value): " + loc.Path)
		}
		return
	}
	if x.isFresh(s, loc.Base) {
		return
	}
	label := shortName(tn) + "." + field
	if mu, ok := ts.Guarded[field]; ok {
		h, held := s.held[loc.Base+"|"+tn+"."+mu]
		good := held && (h.Write || !write)
		if !good {
			// a sub-object reachable only through its owner may be accessed under the owner's lock
			if ownerLock, isOwned := s.ownedBy[loc.Base]; isOwned {
				if oh, ok := s.held[ownerLock]; ok && (oh.Write || !write) {
					good = true
				}
			}
		}
		if ow, isOwned := ts.Owned[field]; isOwned && !good {
			_ = ow
		}
		goal := "true"
		if !good {
			goal = "false"
		}
		x.emit(s, "owns", label, x.spec.Owns, goal, nil)
		return
	}
	if ts.Atomic[field] {
		x.emit(s, "owns", label+"_atomic_only", x.spec.Owns, "false", nil)
		return
	}
	if ts.Confined[field] {
		return // never shared: no discipline to check
	}
	if ts.Immutable[field] {
		if write {
			x.emit(s, "owns", label+"_immutable", x.spec.Owns, "false", nil)
		} else {
			x.emit(s, "owns", label, x.spec.Owns, "true", nil)
		}
		return
	}
	// A field the contract files do not classify (e.g. one added after they were written):
	// inferred discipline - some lock of the same object is held (exclusively for a write);
	// a type without any lock behaves as immutable after construction.
	x.note("unclassified field " + tn + "." + field + ": inferred discipline (a lock of the same object is held; writes exclusively)")
	good := false
	for k, h := range s.held {
		if strings.HasPrefix(k, loc.Base+"|") && (h.Write || !write) {
			good = true
		}
	}
	if ownerLock, isOwned := s.ownedBy[loc.Base]; isOwned && !good {
		if oh, ok := s.held[ownerLock]; ok && (oh.Write || !write) {
			good = true
		}
	}
	if !good && !write && len(ts.Guarded) == 0 {
		good = true
	}
	goal := "true"
	if !good {
		goal = "false"
	}
	x.emit(s, "owns", label+"_unclassified", x.spec.Owns, goal, nil)
}

// lockOp models Lock/RLock/Unlock/RUnlock on a mutex given by location or reference.
func (x *Exec) lockOp(s *State, mu Val, op string) {
	var key, base, path string
	if mu.Loc != nil && mu.Loc.Kind == LocHeap {
		key = mu.Loc.key()
		base, path = mu.Loc.Base, mu.Loc.Path
	} else if len(mu.L) == 1 {
		key = mu.L[0] + "|*"
	} else if mu.Loc != nil {
		key = mu.Loc.key()
	} else {
		unsupported("lock operation on unknown mutex")
	}
	switch op {
	case "Lock", "RLock":
		if _, already := s.held[key]; already {
			if x.checkOwn {
				x.emit(s, "owns", "no_double_lock", x.spec.Owns, "false", nil)
			}
		}
		if s.lockedOnce[key] && path != "" {
			if x.spec.NoHavoc {
				x.note("nohavoc: " + fnName(x.fn) + " is proved for sequential histories (no interference between its critical sections)")
			} else {
				x.havocGuarded(s, base, path)
			}
		}
		s.lockedOnce[key] = true
		s.held[key] = heldLock{Write: op == "Lock"}
	case "Unlock", "RUnlock":
		delete(s.held, key)
	}
}

// havocGuarded: on re-acquisition other goroutines may have changed the guarded fields
// arbitrarily within the invariant.
func (x *Exec) havocGuarded(s *State, base, muPath string) {
	ts, tn, mu := x.classify(muPath)
	if ts == nil {
		return
	}
	nt, ok := x.P.named[tn]
	if !ok {
		return
	}
	st, ok := nt.Underlying().(*types.Struct)
	if !ok {
		return
	}
	for i := 0; i < st.NumFields(); i++ {
		f := st.Field(i)
		if ts.Guarded[f.Name()] != mu {
			continue
		}
		loc := &Loc{Kind: LocHeap, Base: base, Path: tn + "." + f.Name(), Typ: f.Type()}
		x.storeLoc(s, loc, x.freshVal(s, f.Type(), "relock."+f.Name()))
	}
	env := &Env{x: x, s: s, vars: map[string]Val{}, heap: s.heap, old: s.heap, events: s.events}
	this := Val{Typ: types.NewPointer(nt), L: []string{base}}
	s.assume(env.invOf(this, ""))
}

var specDefines map[string]*Define

func usesEvents(e *SExpr) bool {
	if e.Op == "call" && e.Args[0].Op == "id" {
		switch e.Args[0].Tok {
		case "ncalls", "ncallsOn", "callarg", "callres", "callrecv", "callpos", "nevents", "calledUnder", "lastcallarg", "ncallsIter", "callresIter", "callargIter", "callrecvIter":
			return true
		}
		if d, ok := specDefines[e.Args[0].Tok]; ok && d.Body != nil && usesEvents(d.Body) {
			return true
		}
	}
	for _, a := range e.Args {
		if usesEvents(a) {
			return true
		}
	}
	return false
}

// resolveCode: is the function value's code fixed by the path condition? Candidates are the
// repo functions with an identical signature; each candidate costs one small solver query.
func (x *Exec) resolveCode(s *State, code string, sig *types.Signature) *ssa.Function {
	if x.resolveCache == nil {
		x.resolveCache = map[string]*ssa.Function{}
	}
	var cands []*ssa.Function
	for id, f := range x.P.fnByID {
		_ = id
		if len(f.Blocks) > 0 && types.Identical(f.Signature.Params(), sig.Params()) && types.Identical(f.Signature.Results(), sig.Results()) && f.Signature.Recv() == nil {
			if f.Parent() != nil || strings.HasSuffix(f.Name(), "$bound") {
				cands = append(cands, f)
			}
		}
	}
	if len(cands) == 0 || len(cands) > 12 {
		return nil
	}
	key := code + "|" + strings.Join(s.pc, ";")
	if f, ok := x.resolveCache[key]; ok {
		return f
	}
	for _, f := range cands {
		id := fmt.Sprint(x.P.fnIDs[f])
		o := &Obligation{PC: s.pc, Goal: sEq(code, id), DeclText: x.D.text()}
		tmp, err := os.CreateTemp("", "gcv-resolve-*.smt2")
		if err != nil {
			return nil
		}
		tmp.WriteString(smtText(o, true))
		tmp.Close()
		r := runOneSolver(context.Background(), solvers[0], tmp.Name(), 2)
		os.Remove(tmp.Name())
		if r.Status == "unsat" {
			// guard against an infeasible path (which would "resolve" to anything)
			o2 := &Obligation{PC: s.pc, Goal: "false", DeclText: x.D.text()}
			tmp2, err := os.CreateTemp("", "gcv-resolve-*.smt2")
			if err != nil {
				return nil
			}
			tmp2.WriteString(smtText(o2, true))
			tmp2.Close()
			r2 := runOneSolver(context.Background(), solvers[0], tmp2.Name(), 2)
			os.Remove(tmp2.Name())
			if r2.Status == "unsat" {
				s.dead = true
				x.paths++
				return nil
			}
			x.resolveCache[key] = f
			x.note("call through a function value resolved by the path condition to " + fnName(f))
			return f
		}
	}
	x.resolveCache[key] = nil
	return nil
}

func mentionsCall(e *SExpr, fn string) bool {
	if e.Op == "call" && e.Args[0].Op == "id" && e.Args[0].Tok == fn {
		return true
	}
	for _, a := range e.Args {
		if mentionsCall(a, fn) {
			return true
		}
	}
	return false
}
