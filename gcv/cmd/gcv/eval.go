package main

import (
	"math"
	"fmt"
	"go/types"
	"math/big"
	"strconv"
	"strings"
)

// Env evaluates specification expressions over a pair of heaps (old, new) and bindings.
type Env struct {
	x      *Exec
	s      *State
	vars   map[string]Val
	heap   map[string]string
	old    map[string]string
	events []Event
	inOld  bool
	depth  int
	inQuant bool
	calleePost bool // evaluating a callee's postcondition that is being assumed at a call site
	assumeHeld bool // evaluating the function's own precondition: held(mu) takes effect
	rel    map[string]*relObs // relational clause: observation constants for r1()/r2()
}

var untypedInt = types.Typ[types.UntypedInt]
var untypedFloat = types.Typ[types.UntypedFloat]
var untypedNil = types.Typ[types.UntypedNil]

type specErr struct{ msg string }

// undecidableErr: a clause names a function that no longer exists (a closure or helper that was
// restructured away); the clause cannot be evaluated, everything else about the function can.
type undecidableErr struct{ msg string }

func specFail(f string, a ...interface{}) { panic(specErr{fmt.Sprintf(f, a...)}) }

func (e *Env) curHeap() map[string]string {
	if e.inOld {
		return e.old
	}
	return e.heap
}

func (e *Env) heapTerm(path, sort string) string {
	return oldHeapTerm(e.x, e.curHeap(), path, sort)
}

func (e *Env) sub(vars map[string]Val) *Env {
	n := *e
	n.vars = map[string]Val{}
	for k, v := range e.vars {
		n.vars[k] = v
	}
	for k, v := range vars {
		n.vars[k] = v
	}
	return &n
}

func (e *Env) evalBool(ex *SExpr) string {
	v := e.eval(ex)
	if v.Typ == nil {
		return e.x.D.fresh("noevent", "Bool")
	}
	if len(v.L) != 1 || !isBool(v.Typ) {
		specFail("expression %s is not boolean (type %v)", ex, v.Typ)
	}
	return v.L[0]
}

func boolVal(t string) Val { return Val{Typ: types.Typ[types.Bool], L: []string{t}} }
func intVal(t string) Val  { return Val{Typ: types.Typ[types.Int], L: []string{t}} }
func fltVal(t string) Val  { return Val{Typ: types.Typ[types.Float64], L: []string{t}} }

func isUntyped(t types.Type) bool {
	b, ok := t.(*types.Basic)
	return ok && b.Info()&types.IsUntyped != 0
}

func litToFloat(lit string) string {
	r, ok := new(big.Rat).SetString(lit)
	if !ok {
		// literal may be an SMT term like (- 5)
		if strings.HasPrefix(lit, "(- ") {
			inner := strings.TrimSuffix(strings.TrimPrefix(lit, "(- "), ")")
			if r2, ok2 := new(big.Rat).SetString(inner); ok2 {
				return "(fin " + ratString(new(big.Rat).Neg(r2)) + ")"
			}
		}
		specFail("bad numeric literal %q", lit)
	}
	// a decimal literal denotes the float64 Go would convert it to (0.9 is 8106479329266893/2^53),
	// exactly as constants in the code are rendered
	if f, exact := r.Float64(); !exact && !math.IsInf(f, 0) {
		r = new(big.Rat).SetFloat64(f)
	}
	return "(fin " + ratString(r) + ")"
}

// coerce makes two operands agree in type (untyped constants adopt the other side).
func (e *Env) coerce(a, b Val) (Val, Val) {
	if isUntyped(a.Typ) && a.Typ != untypedNil && !isUntyped(b.Typ) {
		if isFloat(b.Typ) {
			return Val{Typ: b.Typ, L: []string{e.untypedToFloat(a)}}, b
		}
		if isInteger(b.Typ) {
			return Val{Typ: b.Typ, L: a.L}, b
		}
	}
	if isUntyped(b.Typ) && b.Typ != untypedNil && !isUntyped(a.Typ) {
		bb, aa := e.coerce(b, a)
		return aa, bb
	}
	if a.Typ == untypedInt && b.Typ == untypedFloat {
		return Val{Typ: untypedFloat, L: a.L}, b
	}
	if a.Typ == untypedFloat && b.Typ == untypedInt {
		return a, Val{Typ: untypedFloat, L: b.L}
	}
	return a, b
}

// untyped numeric constants are kept as SMT integer terms or as decimal literals
func (e *Env) untypedToFloat(a Val) string {
	t := a.L[0]
	if strings.HasPrefix(t, "(fin ") {
		return t
	}
	if a.Typ == untypedInt {
		return i2fTerm(t)
	}
	return litToFloat(t)
}

func (e *Env) eval(ex *SExpr) Val {
	switch ex.Op {
	case "num":
		if strings.ContainsAny(ex.Tok, ".e") && !strings.HasPrefix(ex.Tok, "0x") {
			return Val{Typ: untypedFloat, L: []string{litToFloat(ex.Tok)}}
		}
		n, ok := new(big.Int).SetString(ex.Tok, 0)
		if !ok {
			specFail("bad integer %q", ex.Tok)
		}
		return Val{Typ: untypedInt, L: []string{n.String()}}
	case "bool":
		return boolVal(ex.Tok)
	case "str":
		return Val{Typ: types.Typ[types.String], L: []string{e.x.D.strConst(ex.Tok)}}
	case "id":
		if v, ok := e.vars[ex.Tok]; ok {
			return v
		}
		switch ex.Tok {
		case "nil":
			return Val{Typ: untypedNil, L: []string{"0"}}
		case "MaxInt64":
			return Val{Typ: untypedInt, L: []string{"9223372036854775807"}}
		case "MaxInt32":
			return Val{Typ: untypedInt, L: []string{"2147483647"}}
		case "MinInt64":
			return Val{Typ: untypedInt, L: []string{"(- 9223372036854775808)"}}
		}
		// package-level global of the function's package
		if g := e.lookupGlobal(ex.Tok); g != nil {
			return *g
		}
		specFail("unknown identifier %q", ex.Tok)
	case "sel":
		return e.evalSel(ex)
	case "index":
		return e.evalIndex(ex)
	case "un":
		a := e.eval(ex.Args[0])
		switch ex.Tok {
		case "!":
			return boolVal(sNot(a.L[0]))
		case "-":
			if isFloat(a.Typ) || a.Typ == untypedFloat {
				return Val{Typ: a.Typ, L: []string{fctx{e.s}.neg(e.untypedToFloatIf(a))}}
			}
			return Val{Typ: a.Typ, L: []string{"(- " + a.L[0] + ")"}}
		case "*":
			if a.Typ == nil {
				return a
			}
			loc := e.x.toLoc(a)
			return e.loadLocSpec(loc)
		}
	case "bin":
		return e.evalBin(ex)
	case "call":
		return e.evalCall(ex)
	case "forall", "exists":
		t, err := e.x.P.lookupType(ex.VarT)
		if err != nil {
			specFail("%v", err)
		}
		ls := leavesOf(t)
		if len(ls) != 1 {
			specFail("quantified variable %s must be scalar", ex.Var)
		}
		e.x.D.n++
		name := fmt.Sprintf("q_%s_%d", sanitize(ex.Var), e.x.D.n)
		qe := e.sub(map[string]Val{ex.Var: {Typ: t, L: []string{name}}})
		qe.inQuant = true
		body := qe.evalBool(ex.Args[0])
		rng := "true"
		if lo, hi, ok := intRange(t); ok {
			rng = sAnd("(<= "+lo+" "+name+")", "(<= "+name+" "+hi+")")
		}
		if ex.Op == "forall" {
			return boolVal("(forall ((" + name + " " + ls[0].Sort + ")) " + sImp(rng, body) + ")")
		}
		return boolVal("(exists ((" + name + " " + ls[0].Sort + ")) " + sAnd(rng, body) + ")")
	}
	specFail("cannot evaluate %s", ex)
	return Val{}
}

func (e *Env) untypedToFloatIf(a Val) string {
	if isUntyped(a.Typ) {
		return e.untypedToFloat(a)
	}
	return a.L[0]
}

func (e *Env) lookupGlobal(name string) *Val {
	pkg := e.x.fn.Pkg
	if pkg == nil && e.x.fn.Parent() != nil {
		pkg = e.x.fn.Parent().Pkg
	}
	if pkg == nil {
		return nil
	}
	m, ok := pkg.Members[name]
	if !ok {
		return nil
	}
	switch g := m.(type) {
	case interface{ Type() types.Type }:
		_ = g
	}
	if g, ok := m.(interface {
		Name() string
		Type() types.Type
	}); ok {
		if pt, isPtr := g.Type().(*types.Pointer); isPtr {
			loc := &Loc{Kind: LocHeap, Base: "0", Path: "glob:" + shortPkg(pkg.Pkg) + "." + name, Typ: pt.Elem()}
			v := e.loadLocSpec(loc)
			return &v
		}
	}
	return nil
}

func (e *Env) loadLocSpec(l *Loc) Val {
	if l.Kind != LocHeap {
		specFail("spec dereference of a non-heap location")
	}
	ls := leavesOf(l.Typ)
	v := Val{Typ: l.Typ, L: make([]string, len(ls))}
	for i, lf := range ls {
		v.L[i] = "(select " + e.heapTerm(l.Path+lf.Suffix, lf.Sort) + " " + l.Base + ")"
	}
	if e.s != nil && !e.inQuant {
		e.x.assumeRanges(e.s, v)
	}
	return v
}

func (e *Env) evalSel(ex *SExpr) Val {
	// package-qualified constant, e.g. limit.ProbeDisabled
	a := e.eval(ex.Args[0])
	if a.Typ == nil {
		return a
	}
	name := ex.Tok
	t := types.Unalias(a.Typ)
	// ghost field?
	var ownerKey string
	var idx string
	switch u := t.Underlying().(type) {
	case *types.Pointer:
		ownerKey = typeKey(u.Elem())
		if len(a.L) == 1 {
			idx = a.L[0]
		}
		if st, ok := u.Elem().Underlying().(*types.Struct); ok && a.Loc == nil {
			for i := 0; i < st.NumFields(); i++ {
				if st.Field(i).Name() == name {
					loc := &Loc{Kind: LocHeap, Base: a.L[0], Path: typeKey(u.Elem()) + "." + name, Typ: st.Field(i).Type()}
					v := e.loadLocSpec(loc)
					return e.applyDynType(ownerKey, name, v)
				}
			}
		}
	case *types.Struct:
		ownerKey = typeKey(t)
		for i := 0; i < u.NumFields(); i++ {
			if u.Field(i).Name() == name {
				lo, hi := fieldRange(u, i)
				return Val{Typ: u.Field(i).Type(), L: a.L[lo:hi]}
			}
		}
	case *types.Interface:
		ownerKey = typeKey(t)
		idx = a.L[1]
	case *types.Signature:
		ownerKey = typeKey(t)
		idx = a.L[1]
	}
	if g, ok := e.x.P.specs.Ghosts[ownerKey+"."+name]; ok && idx != "" {
		gt, err := e.x.P.lookupType(g.Type)
		if err != nil {
			specFail("ghost %s: %v", name, err)
		}
		loc := &Loc{Kind: LocHeap, Base: idx, Path: "ghost:" + ownerKey + "." + name, Typ: gt}
		return e.loadLocSpec(loc)
	}
	specFail("no field or ghost %q on %s", name, a.Typ)
	return Val{}
}

// applyDynType narrows an interface-typed field whose dynamic type is fixed by the type spec.
func (e *Env) applyDynType(owner, field string, v Val) Val {
	if ts, ok := e.x.P.specs.Types[owner]; ok && len(v.L) == 2 {
		if dt, ok := ts.DynType[field]; ok {
			if t, err := e.x.P.lookupType(dt); err == nil {
				nv := Val{Typ: v.Typ, L: []string{fmt.Sprint(e.x.P.typeID(t)), v.L[1]}}
				return nv
			}
		}
	}
	return v
}

func (e *Env) evalIndex(ex *SExpr) Val {
	a := e.eval(ex.Args[0])
	i := e.eval(ex.Args[1])
	switch u := a.Typ.Underlying().(type) {
	case *types.Slice:
		r := Val{Typ: u.Elem()}
		for _, arr := range a.L[1:] {
			r.L = append(r.L, "(select "+arr+" "+i.L[0]+")")
		}
		return r
	case *types.Map:
		ks := leavesOf(u.Key())
		dom := "(select " + e.heapTerm(mapPath(u)+"#dom", "(Array "+ks[0].Sort+" Bool)") + " " + a.L[0] + ")"
		in := "(select " + dom + " " + i.L[0] + ")"
		r := Val{Typ: u.Elem()}
		for _, lf := range leavesOf(u.Elem()) {
			asort := "(Array " + ks[0].Sort + " " + lf.Sort + ")"
			cur := "(select " + e.heapTerm(mapPath(u)+"#val"+lf.Suffix, asort) + " " + a.L[0] + ")"
			r.L = append(r.L, sIte(in, "(select "+cur+" "+i.L[0]+")", zeroOfSort(lf.Sort)))
		}
		return r
	}
	if a.Iter != nil {
		// #visited[k]
		return boolVal("(select " + a.Iter.Visited + " " + i.L[0] + ")")
	}
	specFail("cannot index %s", a.Typ)
	return Val{}
}

func (e *Env) evalBin(ex *SExpr) Val {
	op := ex.Tok
	switch op {
	case "&&":
		return boolVal(sAnd(e.evalBool(ex.Args[0]), e.evalBool(ex.Args[1])))
	case "||":
		return boolVal(sOr(e.evalBool(ex.Args[0]), e.evalBool(ex.Args[1])))
	case "==>":
		return boolVal(sImp(e.evalBool(ex.Args[0]), e.evalBool(ex.Args[1])))
	case "<==>":
		return boolVal(sEq(e.evalBool(ex.Args[0]), e.evalBool(ex.Args[1])))
	}
	a := e.eval(ex.Args[0])
	b := e.eval(ex.Args[1])
	if a.Typ == nil || b.Typ == nil {
		// a value taken from a call event that did not happen on this path
		switch op {
		case "==", "!=", "<", "<=", ">", ">=":
			return boolVal(e.x.D.fresh("noevent", "Bool"))
		}
		return Val{Typ: nil, L: []string{"missing"}}
	}
	a, b = e.coerce(a, b)
	isF := isFloat(a.Typ) || a.Typ == untypedFloat
	af, bf := "", ""
	if isF {
		af, bf = e.untypedToFloatIf(a), e.untypedToFloatIf(b)
	}
	switch op {
	case "==", "!=":
		var eq string
		switch {
		case a.Typ == untypedNil || b.Typ == untypedNil:
			other := a
			if a.Typ == untypedNil {
				other = b
			}
			eq = sEq(other.L[0], "0")
			if _, isSlice := other.Typ.Underlying().(*types.Slice); isSlice {
				eq = sEq(other.L[0], "0")
			}
		case isF:
			eq = fctx{e.s}.same(af, bf)
		default:
			if len(a.L) != len(b.L) {
				specFail("comparing values of different shapes in %s", ex)
			}
			var parts []string
			for i := range a.L {
				parts = append(parts, sEq(a.L[i], b.L[i]))
			}
			eq = sAnd(parts...)
		}
		if op == "!=" {
			return boolVal(sNot(eq))
		}
		return boolVal(eq)
	case "<", "<=", ">", ">=":
		if isF {
			fc := fctx{e.s}
			switch op {
			case "<":
				return boolVal(fc.lt(af, bf))
			case "<=":
				return boolVal(fc.le(af, bf))
			case ">":
				return boolVal(fc.lt(bf, af))
			default:
				return boolVal(fc.le(bf, af))
			}
		}
		return boolVal("(" + op + " " + a.L[0] + " " + b.L[0] + ")")
	case "+", "-", "*", "/", "%", "<<":
		if isF {
			fc := fctx{e.s}
			var term string
			switch op {
			case "+":
				term = fc.add(af, bf)
			case "-":
				term = fc.sub(af, bf)
			case "*":
				term = fc.mul(af, bf)
			case "/":
				term = fc.div(af, bf)
			default:
				specFail("operator %s on floats", op)
			}
			t := a.Typ
			if isUntyped(t) {
				t = b.Typ
			}
			if isUntyped(t) {
				t = types.Typ[types.Float64]
			}
			return Val{Typ: t, L: []string{term}}
		}
		if isString(a.Typ) && op == "+" {
			e.x.D.declareFun("str_cat", "(Str Str) Str")
			return Val{Typ: a.Typ, L: []string{"(str_cat " + a.L[0] + " " + b.L[0] + ")"}}
		}
		t := a.Typ
		if isUntyped(t) {
			t = b.Typ
		}
		switch op {
		case "/":
			return Val{Typ: t, L: []string{"(tdiv " + a.L[0] + " " + b.L[0] + ")"}}
		case "%":
			return Val{Typ: t, L: []string{"(tmod " + a.L[0] + " " + b.L[0] + ")"}}
		case "<<":
			n, err := strconv.Atoi(b.L[0])
			av, ok := new(big.Int).SetString(a.L[0], 10)
			if err != nil || !ok {
				specFail("<< needs constant operands")
			}
			return Val{Typ: t, L: []string{new(big.Int).Lsh(av, uint(n)).String()}}
		}
		return Val{Typ: t, L: []string{"(" + op + " " + a.L[0] + " " + b.L[0] + ")"}}
	}
	specFail("operator %s", op)
	return Val{}
}

func (e *Env) strArg(ex *SExpr) string {
	if ex.Op != "str" {
		specFail("expected string literal, got %s", ex)
	}
	return ex.Tok
}

func (e *Env) intArg(ex *SExpr) int {
	if ex.Op != "num" {
		specFail("expected integer literal, got %s", ex)
	}
	n, _ := strconv.Atoi(ex.Tok)
	return n
}

// paramEventAliases: a call through a function-typed parameter is recorded as
// "funcvalue:param:<type>:<name>". Contracts may name it that way or, robustly against renames,
// as "funcvalue:param#<i>" (i-th parameter, receiver excluded); a renamed parameter also keeps
// matching the name it had when the baseline was accepted.
func (e *Env) paramEventAliases(evName string) []string {
	const pre = "funcvalue:param:"
	if !strings.HasPrefix(evName, pre) || e.x == nil || e.x.fn == nil {
		return nil
	}
	j := strings.LastIndex(evName, ":")
	cur := evName[j+1:]
	off := 0
	if e.x.fn.Signature.Recv() != nil {
		off = 1
	}
	var out []string
	for i, p := range e.x.fn.Params {
		if p.Name() != cur || i < off {
			continue
		}
		out = append(out, fmt.Sprintf("funcvalue:param#%d", i-off))
		if a := baselineParamName(fnName(e.x.fn), i); a != "" && a != cur {
			out = append(out, evName[:j+1]+a)
		}
	}
	return out
}

func (e *Env) matchEvents(name string) []int {
	var idx []int
	for i, ev := range e.events {
		alias := false
		for _, a := range e.paramEventAliases(ev.Name) {
			if a == name {
				alias = true
			}
		}
		if alias || ev.Name == name || strings.HasSuffix(ev.Name, "."+name) && !strings.Contains(name, ".") {
			idx = append(idx, i)
		}
	}
	return idx
}

func (e *Env) evalCall(ex *SExpr) Val {
	fn := ex.Args[0]
	args := ex.Args[1:]
	if fn.Op == "id" {
		switch fn.Tok {
		case "old":
			n := *e
			n.inOld = true
			return n.eval(args[0])
		case "r1", "r2":
			if e.rel == nil {
				specFail("%s() outside a relational clause", fn.Tok)
			}
			o, ok := e.rel[args[0].String()]
			if !ok {
				specFail("relational observation %s not collected", args[0])
			}
			if fn.Tok == "r1" {
				return o.c[0]
			}
			return o.c[1]
		case "max", "min":
			a, b := e.coerce(e.eval(args[0]), e.eval(args[1]))
			if isFloat(a.Typ) || a.Typ == untypedFloat {
				fc := fctx{e.s}
				f := fc.max
				if fn.Tok == "min" {
					f = fc.min
				}
				t := a.Typ
				if isUntyped(t) {
					t = types.Typ[types.Float64]
				}
				r := Val{Typ: t, L: []string{f(e.untypedToFloatIf(a), e.untypedToFloatIf(b))}}
				for _, more := range args[2:] {
					m := e.eval(more)
					r = Val{Typ: t, L: []string{f(r.L[0], e.untypedToFloatIf(m))}}
				}
				return r
			}
			f := "imax"
			if fn.Tok == "min" {
				f = "imin"
			}
			t := a.Typ
			if isUntyped(t) {
				t = b.Typ
			}
			r := Val{Typ: t, L: []string{"(" + f + " " + a.L[0] + " " + b.L[0] + ")"}}
			for _, more := range args[2:] {
				m := e.eval(more)
				r = Val{Typ: t, L: []string{"(" + f + " " + r.L[0] + " " + m.L[0] + ")"}}
			}
			return r
		case "ceil", "floor", "trunc":
			a := e.eval(args[0])
			fc := fctx{e.s}
			switch fn.Tok {
			case "ceil":
				return fltVal(fc.ceil(e.untypedToFloatIf(a)))
			case "floor":
				return fltVal(fc.floor(e.untypedToFloatIf(a)))
			}
			return fltVal(fc.trunc(e.untypedToFloatIf(a)))
		case "sqrt":
			a := e.eval(args[0])
			e.x.usedSqrt = true
			return fltVal("(fsqrt " + e.untypedToFloatIf(a) + ")")
		case "float64":
			a := e.eval(args[0])
			if isFloat(a.Typ) || a.Typ == untypedFloat {
				return fltVal(e.untypedToFloatIf(a))
			}
			return fltVal(i2fTerm(a.L[0]))
		case "int", "int64":
			a := e.eval(args[0])
			if isFloat(a.Typ) {
				t := fctx{e.s}.f2i(a.L[0])
				if !e.inQuant && e.s != nil {
					t = e.x.nameTerm(e.s, t, "Int", "f2i")
				}
				return Val{Typ: types.Typ[types.Int], L: []string{t}}
			}
			return Val{Typ: types.Typ[types.Int], L: a.L}
		case "int32":
			a := e.eval(args[0])
			if isFloat(a.Typ) {
				return Val{Typ: types.Typ[types.Int32], L: []string{fctx{e.s}.f2i(a.L[0])}}
			}
			return Val{Typ: types.Typ[types.Int32], L: []string{"(wrap32 " + a.L[0] + ")"}}
		case "wrap64":
			a := e.eval(args[0])
			return Val{Typ: types.Typ[types.Int64], L: []string{"(wrap64 " + a.L[0] + ")"}}
		case "uint64":
			a := e.eval(args[0])
			return Val{Typ: types.Typ[types.Uint64], L: []string{"(wrapu64 " + a.L[0] + ")"}}
		case "real":
			// the real number denoted by a finite float (spec-only)
			a := e.eval(args[0])
			return Val{Typ: types.Typ[types.Float64], L: []string{"(fin (fv " + e.untypedToFloatIf(a) + "))"}}
		case "isFinite":
			a := e.eval(args[0])
			return boolVal(fctx{e.s}.isfin(e.untypedToFloatIf(a)))
		case "isNaN":
			a := e.eval(args[0])
			return boolVal(fctx{e.s}.isnan(e.untypedToFloatIf(a)))
		case "len":
			a := e.eval(args[0])
			switch u := a.Typ.Underlying().(type) {
			case *types.Slice:
				return intVal(a.L[0])
			case *types.Map:
				return intVal("(select " + e.heapTerm(mapPath(u)+"#len", "Int") + " " + a.L[0] + ")")
			}
			specFail("len of %s", a.Typ)
		case "has":
			a := e.eval(args[0])
			k := e.eval(args[1])
			u, ok := a.Typ.Underlying().(*types.Map)
			if !ok {
				specFail("has() needs a map")
			}
			ks := leavesOf(u.Key())
			dom := "(select " + e.heapTerm(mapPath(u)+"#dom", "(Array "+ks[0].Sort+" Bool)") + " " + a.L[0] + ")"
			return boolVal("(select " + dom + " " + k.L[0] + ")")
		case "ite":
			c := e.evalBool(args[0])
			a, b := e.coerce(e.eval(args[1]), e.eval(args[2]))
			r := Val{Typ: a.Typ}
			for i := range a.L {
				r.L = append(r.L, sIte(c, a.L[i], b.L[i]))
			}
			return r
		case "inv":
			a := e.eval(args[0])
			return boolVal(e.invOf(a, ""))
		case "fresh":
			a := e.eval(args[0])
			e.x.D.declare("Alloc0", "(Array Int Bool)")
			parts := []string{"(not (= " + a.L[0] + " 0))", "(not (select Alloc0 " + a.L[0] + "))"}
			if e.calleePost && !e.inQuant {
				// assumed at a call site: the callee allocated it, so it is also distinct from
				// everything this activation has allocated or received as fresh so far
				for _, r := range e.s.fresh {
					if r != a.L[0] {
						parts = append(parts, "(not (= "+a.L[0]+" "+r+"))")
					}
				}
				already := false
				for _, r := range e.s.fresh {
					if r == a.L[0] {
						already = true
					}
				}
				if !already {
					e.s.fresh = append(e.s.fresh, a.L[0])
				}
			}
			return boolVal(sAnd(parts...))
		case "allocated":
			a := e.eval(args[0])
			e.x.D.declare("Alloc0", "(Array Int Bool)")
			return boolVal("(select Alloc0 " + a.L[0] + ")")
		case "dyntype":
			a := e.eval(args[0])
			if a.Typ == nil {
				return a
			}
			t, err := e.x.P.lookupType(e.strArg(args[1]))
			if err != nil {
				specFail("%v", err)
			}
			return boolVal(sEq(a.L[0], fmt.Sprint(e.x.P.typeID(t))))
		case "ref":
			a := e.eval(args[0])
			if a.Typ == nil {
				return a
			}
			if isIface(a.Typ) {
				return Val{Typ: types.Typ[types.UnsafePointer], L: []string{a.L[1]}}
			}
			return Val{Typ: types.Typ[types.UnsafePointer], L: []string{a.L[0]}}
		case "as":
			// as(x, "*pkg.T"): view the payload of an interface value as a pointer of that type
			a := e.eval(args[0])
			if a.Typ == nil {
				return a
			}
			t, err := e.x.P.lookupType(e.strArg(args[1]))
			if err != nil {
				specFail("%v", err)
			}
			if isIface(a.Typ) {
				return Val{Typ: t, L: []string{a.L[1]}}
			}
			return Val{Typ: t, L: a.L}
		case "isfunc":
			// isfunc(f, "pkg.Name"): the function value f is (a closure of) that function
			a := e.eval(args[0])
			if a.Typ == nil {
				return a
			}
			f, ok := e.x.P.fns[e.strArg(args[1])]
			if !ok {
				panic(undecidableErr{"the clause names function " + e.strArg(args[1]) + ", which no longer exists"})
			}
			return boolVal(sEq(a.L[0], fmt.Sprint(e.x.P.fnIDs[f])))
		case "captured":
			// captured(f, "pkg.Name", i): i-th binding of closure value f
			a := e.eval(args[0])
			if a.Typ == nil {
				return a
			}
			f, ok := e.x.P.fns[e.strArg(args[1])]
			if !ok {
				panic(undecidableErr{"the clause names function " + e.strArg(args[1]) + ", which no longer exists"})
			}
			i := e.intArg(args[2])
			if i < 0 || i >= len(f.FreeVars) {
				panic(undecidableErr{fmt.Sprintf("the clause names captured variable #%d of %s, which captures only %d variable(s) now", i, e.strArg(args[1]), len(f.FreeVars))})
			}
			fv := f.FreeVars[i]
			r := Val{Typ: fv.Type()}
			for _, lf := range leavesOf(fv.Type()) {
				r.L = append(r.L, "(select "+e.heapTerm(fmt.Sprintf("env:%s.%d%s", fnName(f), i, lf.Suffix), lf.Sort)+" "+a.L[1]+")")
			}
			return r
		case "apply":
			// apply(f, "spec name of a pure field contract", args...): the value the pure function
			// value f returns for these arguments (same uninterpreted function the executor uses).
			f := e.eval(args[0])
			spec, ok := e.x.P.specs.Funcs[e.strArg(args[1])]
			if !ok || !spec.Pure {
				specFail("apply: %s is not a pure contract", e.strArg(args[1]))
			}
			sig, ok := f.Typ.Underlying().(*types.Signature)
			if !ok {
				specFail("apply: not a function value")
			}
			var av []Val
			for _, a := range args[2:] {
				av = append(av, e.eval(a))
			}
			return e.x.pureResult(e.s, spec, &f, nil, sig, av)
		case "held":
			// held(x.mu): the lock is held at this point of the path (Go-side fact)
			lk := e.lockKey(args[0])
			if e.assumeHeld {
				e.s.held[lk] = heldLock{Write: true}
				e.s.lockedOnce[lk] = true
				return boolVal("true")
			}
			_, ok := e.s.held[lk]
			if ok {
				return boolVal("true")
			}
			return boolVal("false")
		case "ncalls":
			name := e.strArg(args[0])
			if e.s.opaqueEvents[name] {
				return intVal(e.x.D.fresh("ncalls", "Int"))
			}
			return Val{Typ: types.Typ[types.Int], L: []string{fmt.Sprint(len(e.matchEvents(name)))}}
		case "ncallsOn":
			recv := e.eval(args[0])
			name := e.strArg(args[1])
			if e.s.opaqueEvents[name] {
				return intVal(e.x.D.fresh("ncalls", "Int"))
			}
			sum := "0"
			for _, i := range e.matchEvents(name) {
				ev := e.events[i]
				if ev.Recv == nil {
					continue
				}
				sum = "(+ " + sum + " " + sIte(e.sameObj(*ev.Recv, recv), "1", "0") + ")"
			}
			return intVal(sum)
		case "callarg", "callres", "callrecv", "callpos":
			name := e.strArg(args[0])
			k := e.intArg(args[1])
			idx := e.matchEvents(name)
			if k >= len(idx) || e.s.opaqueEvents[name] {
				// no such event on this path: comparisons with this value are unprovable
				return Val{Typ: nil, L: []string{"missing"}}
			}
			ev := e.events[idx[k]]
			switch fn.Tok {
			case "callarg":
				if i := e.intArg(args[2]); i < len(ev.Args) {
					return ev.Args[i]
				}
				return Val{Typ: nil, L: []string{"missing"}}
			case "callres":
				if i := e.intArg(args[2]); i < len(ev.Res) {
					return ev.Res[i]
				}
				return Val{Typ: nil, L: []string{"missing"}}
			case "callrecv":
				if ev.Recv == nil {
					return Val{Typ: nil, L: []string{"missing"}}
				}
				return *ev.Recv
			default:
				return Val{Typ: types.Typ[types.Int], L: []string{fmt.Sprint(idx[k])}}
			}
		case "strHasPrefix":
			a, b := e.eval(args[0]), e.eval(args[1])
			e.x.D.declareFun("str_hasprefix", "(Str Str) Bool")
			return boolVal("(str_hasprefix " + a.L[0] + " " + b.L[0] + ")")
		case "strTrimPrefix":
			a, b := e.eval(args[0]), e.eval(args[1])
			e.x.D.declareFun("str_trimprefix", "(Str Str) Str")
			return Val{Typ: types.Typ[types.String], L: []string{"(str_trimprefix " + a.L[0] + " " + b.L[0] + ")"}}
		case "chancap":
			a := e.eval(args[0])
			if a.Typ == nil {
				return a
			}
			return intVal("(select " + e.heapTerm("ghost:chan.cap", "Int") + " " + a.L[0] + ")")
		case "lvalue":
			a := e.eval(args[0])
			return Val{Typ: types.Typ[types.UnsafePointer], L: []string{"(select " + e.heapTerm("container/list.Element.Value#v", "Int") + " " + a.L[0] + ")"}}
		case "lmember", "lstamp", "llen":
			// ghost state of a container/list.List (see models.go)
			a := e.eval(args[0])
			switch fn.Tok {
			case "llen":
				return intVal("(select " + e.heapTerm("ghost:list.len", "Int") + " " + a.L[0] + ")")
			case "lstamp":
				return intVal("(select " + e.heapTerm("ghost:list.stamp", "Int") + " " + a.L[0] + ")")
			default:
				b := e.eval(args[1])
				return boolVal("(select (select " + e.heapTerm("ghost:list.mem", "(Array Int Bool)") + " " + a.L[0] + ") " + b.L[0] + ")")
			}
		case "calledUnder", "calledUnderRead":
			// calledUnder("event", k, x.mu): the k-th such call happened with the lock held
			name := e.strArg(args[0])
			k := e.intArg(args[1])
			lk := e.lockKey(args[2])
			idx := e.matchEvents(name)
			if k >= len(idx) {
				return boolVal(e.x.D.fresh("noevent", "Bool"))
			}
			for _, h := range e.events[idx[k]].Held {
				if h == lk || (fn.Tok == "calledUnderRead" && h == lk+"#r") {
					return boolVal("true")
				}
			}
			return boolVal("false")
		case "ncallsIter":
			// calls since the last loop-head cut (the current iteration of the innermost loop)
			name := e.strArg(args[0])
			n := 0
			for _, i := range e.matchEvents(name) {
				if e.events[i].Iter == e.s.iterEpoch {
					n++
				}
			}
			return Val{Typ: types.Typ[types.Int], L: []string{fmt.Sprint(n)}}
		case "callresIter", "callargIter", "callrecvIter":
			name := e.strArg(args[0])
			k := e.intArg(args[1])
			var idx []int
			for _, i := range e.matchEvents(name) {
				if e.events[i].Iter == e.s.iterEpoch {
					idx = append(idx, i)
				}
			}
			if k >= len(idx) {
				return Val{Typ: nil, L: []string{"missing"}}
			}
			ev := e.events[idx[k]]
			if fn.Tok == "callrecvIter" {
				if ev.Recv != nil {
					return *ev.Recv
				}
				return Val{Typ: nil, L: []string{"missing"}}
			}
			i := e.intArg(args[2])
			if fn.Tok == "callresIter" {
				if i < len(ev.Res) {
					return ev.Res[i]
				}
			} else if i < len(ev.Args) {
				return ev.Args[i]
			}
			return Val{Typ: nil, L: []string{"missing"}}
		case "lastcallarg":
			name := e.strArg(args[0])
			idx := e.matchEvents(name)
			if len(idx) == 0 || e.s.opaqueEvents[name] {
				return Val{Typ: nil, L: []string{"missing"}}
			}
			if i := e.intArg(args[1]); i < len(e.events[idx[len(idx)-1]].Args) {
				return e.events[idx[len(idx)-1]].Args[i]
			}
			return Val{Typ: nil, L: []string{"missing"}}
		case "nevents":
			return Val{Typ: types.Typ[types.Int], L: []string{fmt.Sprint(len(e.events))}}
		}
		if d, ok := e.x.P.specs.Defines[fn.Tok]; ok {
			if len(args) != len(d.Params) {
				specFail("%s expects %d arguments", d.Name, len(d.Params))
			}
			vars := map[string]Val{}
			for i, p := range d.Params {
				a := e.eval(args[i])
				pt, err := e.x.P.lookupType(d.PTypes[i])
				if err == nil && isUntyped(a.Typ) {
					if isFloat(pt) {
						a = Val{Typ: pt, L: []string{e.untypedToFloat(a)}}
					} else {
						a = Val{Typ: pt, L: a.L}
					}
				}
				// name large ground arguments so they are not copied into quantifier bodies
				if !e.inQuant && e.s != nil && pt != nil {
					ls := leavesOf(pt)
					if len(ls) == len(a.L) && a.Loc == nil && a.Iter == nil {
						na := Val{Typ: a.Typ, L: make([]string, len(a.L))}
						for j, t := range a.L {
							if strings.HasPrefix(ls[j].Sort, "(Array") {
								na.L[j] = t
							} else {
								na.L[j] = e.x.nameTerm(e.s, t, ls[j].Sort, "arg")
							}
						}
						a = na
					}
				}
				vars[p] = a
			}
			if e.depth > 20 {
				specFail("define recursion too deep")
			}
			n := e.sub(vars)
			n.depth = e.depth + 1
			if d.Opaque {
				return e.evalOpaque(d, vars, n)
			}
			return n.eval(d.Body)
		}
	}
	specFail("unknown spec function in %s", ex)
	return Val{}
}

func (e *Env) sameObj(a, b Val) string {
	ra, rb := a.L[0], b.L[0]
	if isIface(a.Typ) {
		ra = a.L[1]
	}
	if isIface(b.Typ) {
		rb = b.L[1]
	}
	return sEq(ra, rb)
}

func (e *Env) lockKey(ex *SExpr) string {
	if ex.Op != "sel" {
		specFail("held() needs x.mu")
	}
	a := e.eval(ex.Args[0])
	pt, ok := a.Typ.Underlying().(*types.Pointer)
	if !ok {
		specFail("held() needs pointer receiver")
	}
	return a.L[0] + "|" + typeKey(pt.Elem()) + "." + ex.Tok
}

// invOf returns the conjunction of the invariant clauses of v's type (optionally only the
// clause with the given label), with `this` bound to v.
func (e *Env) invOf(v Val, label string) string {
	ts := e.x.typeSpecOf(v.Typ)
	if ts == nil {
		return "true"
	}
	var parts []string
	n := e.sub(map[string]Val{"this": v})
	for _, c := range ts.Invs {
		if label != "" && c.Label != label {
			continue
		}
		parts = append(parts, n.evalBool(c.Expr))
	}
	return sAnd(parts...)
}

func (x *Exec) typeSpecOf(t types.Type) *TypeSpec {
	t = types.Unalias(t)
	if p, ok := t.Underlying().(*types.Pointer); ok {
		t = p.Elem()
	}
	return x.P.specs.Types[typeKey(t)]
}

// evalOpaque: an opaque spec function is an uninterpreted function; its definition is assumed
// (for the ground arguments at hand) only in functions that `reveal` it.
func (e *Env) evalOpaque(d *Define, vars map[string]Val, n *Env) Val {
	rt, err := e.x.P.lookupType(d.RType)
	if err != nil {
		specFail("opaque %s: %v", d.Name, err)
	}
	var argTerms, argSorts []string
	for i, p := range d.Params {
		pt, err := e.x.P.lookupType(d.PTypes[i])
		if err != nil {
			specFail("opaque %s: %v", d.Name, err)
		}
		for j, lf := range leavesOf(pt) {
			argTerms = append(argTerms, vars[p].L[j])
			argSorts = append(argSorts, lf.Sort)
		}
	}
	ls := leavesOf(rt)
	if len(ls) != 1 {
		specFail("opaque %s: scalar result expected", d.Name)
	}
	fname := "opaque." + sanitize(d.Name)
	isF := ls[0].Sort == "F"
	rsort := ls[0].Sort
	if isF {
		// opaque float-valued spec functions are finite real-valued by construction
		rsort = "Real"
	}
	e.x.D.declareFun(fname, "("+strings.Join(argSorts, " ")+") "+rsort)
	term := "(" + fname + " " + strings.Join(argTerms, " ") + ")"
	if isF {
		term = "(fin " + term + ")"
	}
	res := Val{Typ: rt, L: []string{term}}
	revealed := false
	for _, r := range e.x.spec.Reveal {
		if r == d.Name {
			revealed = true
		}
	}
	if revealed && !e.inQuant && e.s != nil {
		body := n.eval(d.Body)
		key := "reveal:" + term
		if e.s.ranged == nil {
			e.s.ranged = map[string]bool{}
		}
		if !e.s.ranged[key] {
			e.s.ranged[key] = true
			if isF {
				fc := fctx{e.s}
				e.s.pc = append(e.s.pc, sImp(fc.isfin(body.L[0]), fc.same(term, body.L[0])))
			} else {
				e.s.pc = append(e.s.pc, sEq(term, body.L[0]))
			}
		}
	}
	return res
}
