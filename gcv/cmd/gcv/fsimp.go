package main

import "strings"

// Float term construction with a finite fast path (DESIGN §2.4): when both operands are
// syntactically finite — "(fin r)" or a term the path has learned to be finite — the IEEE
// special-value case analysis is decided here and the result is plain real arithmetic. This is a
// sound simplification of the prelude's define-funs (same semantics, smaller formulas).

type fctx struct{ s *State }

// finInner returns the real term of a float term known to be finite.
func (c fctx) finInner(t string) (string, bool) {
	if strings.HasPrefix(t, "(fin ") && strings.HasSuffix(t, ")") && balancedParen(t) {
		return t[5 : len(t)-1], true
	}
	if c.s != nil && c.s.fin != nil {
		if r, ok := c.s.fin[t]; ok {
			return r, true
		}
	}
	return "", false
}

func balancedParen(t string) bool {
	d := 0
	for i := 0; i < len(t); i++ {
		if t[i] == '(' {
			d++
		} else if t[i] == ')' {
			d--
			if d == 0 && i != len(t)-1 {
				return false
			}
		}
	}
	return d == 0
}

func (c fctx) norm(t string) string {
	if r, ok := c.finInner(t); ok {
		return "(fin " + r + ")"
	}
	return t
}

func (c fctx) bin(op, rop string, a, b string) string {
	ra, oka := c.finInner(a)
	rb, okb := c.finInner(b)
	if oka && okb {
		return "(fin (" + rop + " " + ra + " " + rb + "))"
	}
	return "(" + op + " " + c.norm(a) + " " + c.norm(b) + ")"
}

func (c fctx) add(a, b string) string { return c.bin("fadd", "+", a, b) }
func (c fctx) sub(a, b string) string { return c.bin("fsub", "-", a, b) }
func (c fctx) mul(a, b string) string { return c.bin("fmul", "*", a, b) }

func (c fctx) div(a, b string) string {
	ra, oka := c.finInner(a)
	rb, okb := c.finInner(b)
	if oka && okb {
		if c.s != nil && c.s.nonzero[rb] {
			return "(fin (/ " + ra + " " + rb + "))"
		}
		if isNonzeroLit(rb) {
			return "(fin (/ " + ra + " " + rb + "))"
		}
	}
	return "(fdiv " + c.norm(a) + " " + c.norm(b) + ")"
}

func isNonzeroLit(r string) bool {
	if r == "" || r == "0.0" || r == "0" {
		return false
	}
	for _, ch := range r {
		if !(ch >= '0' && ch <= '9' || ch == '.') {
			return false
		}
	}
	return strings.Trim(r, "0.") != ""
}

func (c fctx) neg(a string) string {
	if ra, ok := c.finInner(a); ok {
		return "(fin (- " + ra + "))"
	}
	return "(fneg " + a + ")"
}

func (c fctx) cmp(op, rop string, a, b string) string {
	ra, oka := c.finInner(a)
	rb, okb := c.finInner(b)
	if oka && okb {
		return "(" + rop + " " + ra + " " + rb + ")"
	}
	return "(" + op + " " + c.norm(a) + " " + c.norm(b) + ")"
}

func (c fctx) lt(a, b string) string { return c.cmp("flt", "<", a, b) }
func (c fctx) le(a, b string) string { return c.cmp("fle", "<=", a, b) }
func (c fctx) eq(a, b string) string { return c.cmp("feq", "=", a, b) }

// structural equality (spec ==): NaN equals NaN
func (c fctx) same(a, b string) string {
	ra, oka := c.finInner(a)
	rb, okb := c.finInner(b)
	if oka && okb {
		return sEq(ra, rb)
	}
	return sEq(c.norm(a), c.norm(b))
}

func (c fctx) max(a, b string) string {
	ra, oka := c.finInner(a)
	rb, okb := c.finInner(b)
	if oka && okb {
		return "(fin (ite (< " + ra + " " + rb + ") " + rb + " " + ra + "))"
	}
	return "(fmax " + c.norm(a) + " " + c.norm(b) + ")"
}

func (c fctx) min(a, b string) string {
	ra, oka := c.finInner(a)
	rb, okb := c.finInner(b)
	if oka && okb {
		return "(fin (ite (< " + ra + " " + rb + ") " + ra + " " + rb + "))"
	}
	return "(fmin " + c.norm(a) + " " + c.norm(b) + ")"
}

func (c fctx) un(op, rop string, a string) string {
	if ra, ok := c.finInner(a); ok {
		return "(fin (" + rop + " " + ra + "))"
	}
	return "(" + op + " " + a + ")"
}

func (c fctx) ceil(a string) string  { return c.un("fceil", "rceil", a) }
func (c fctx) floor(a string) string { return c.un("ffloor", "rfloor", a) }
func (c fctx) trunc(a string) string { return c.un("ftrunc", "rtrunc", a) }

func (c fctx) isfin(a string) string {
	if _, ok := c.finInner(a); ok {
		return "true"
	}
	return "(isfin " + a + ")"
}

func (c fctx) isnan(a string) string {
	if _, ok := c.finInner(a); ok {
		return "false"
	}
	return "(= " + a + " nan)"
}

func (c fctx) f2i(a string) string {
	if ra, ok := c.finInner(a); ok {
		return "(ite (>= " + ra + " 0.0) (to_int " + ra + ") (- (to_int (- " + ra + "))))"
	}
	return "(f2i " + a + ")"
}

func i2fTerm(i string) string { return "(fin (to_real " + i + "))" }
