package main

import (
	"fmt"
	"strings"
	"unicode"
)

// SExpr is the AST of the specification expression language (DESIGN §3).
type SExpr struct {
	Op   string // "num" "str" "id" "sel" "call" "index" "un" "bin" "forall" "exists" "bool"
	Tok  string // operator / identifier / literal
	Args []*SExpr
	// quantifiers
	Var  string
	VarT string
}

func (e *SExpr) String() string {
	switch e.Op {
	case "num", "id", "bool":
		return e.Tok
	case "str":
		return fmt.Sprintf("%q", e.Tok)
	case "sel":
		return e.Args[0].String() + "." + e.Tok
	case "call":
		var as []string
		for _, a := range e.Args[1:] {
			as = append(as, a.String())
		}
		return e.Args[0].String() + "(" + strings.Join(as, ", ") + ")"
	case "index":
		return e.Args[0].String() + "[" + e.Args[1].String() + "]"
	case "un":
		return e.Tok + e.Args[0].String()
	case "bin":
		return "(" + e.Args[0].String() + " " + e.Tok + " " + e.Args[1].String() + ")"
	case "forall", "exists":
		return e.Op + " " + e.Var + " " + e.VarT + " :: " + e.Args[0].String()
	}
	return "?"
}

type tok struct {
	k string // num str id op eof
	s string
}

func lexSpec(s string) ([]tok, error) {
	var out []tok
	i := 0
	for i < len(s) {
		c := s[i]
		switch {
		case c == ' ' || c == '\t':
			i++
		case unicode.IsDigit(rune(c)):
			j := i
			for j < len(s) && (unicode.IsDigit(rune(s[j])) || s[j] == '.' || s[j] == 'e' || s[j] == 'x' || (s[j] >= 'a' && s[j] <= 'f' && strings.HasPrefix(s[i:], "0x"))) {
				if s[j] == 'e' && j+1 < len(s) && (s[j+1] == '-' || s[j+1] == '+') {
					j++
				}
				j++
			}
			out = append(out, tok{"num", s[i:j]})
			i = j
		case unicode.IsLetter(rune(c)) || c == '_' || c == '#' || c == '$':
			j := i + 1
			for j < len(s) && (unicode.IsLetter(rune(s[j])) || unicode.IsDigit(rune(s[j])) || s[j] == '_' || s[j] == '#' || s[j] == '$') {
				j++
			}
			out = append(out, tok{"id", s[i:j]})
			i = j
		case c == '"':
			j := i + 1
			for j < len(s) && s[j] != '"' {
				j++
			}
			if j >= len(s) {
				return nil, fmt.Errorf("unterminated string")
			}
			out = append(out, tok{"str", s[i+1 : j]})
			i = j + 1
		default:
			for _, op := range []string{"<==>", "==>", "::", "&&", "||", "==", "!=", "<=", ">=", "<<"} {
				if strings.HasPrefix(s[i:], op) {
					out = append(out, tok{"op", op})
					i += len(op)
					goto next
				}
			}
			if strings.ContainsRune("+-*/%<>!().,[]", rune(c)) {
				out = append(out, tok{"op", string(c)})
				i++
			} else {
				return nil, fmt.Errorf("unexpected character %q in %q", c, s)
			}
		next:
		}
	}
	out = append(out, tok{"eof", ""})
	return out, nil
}

type sparser struct {
	t []tok
	i int
}

func (p *sparser) peek() tok { return p.t[p.i] }
func (p *sparser) next() tok { t := p.t[p.i]; p.i++; return t }
func (p *sparser) isOp(s string) bool {
	return p.t[p.i].k == "op" && p.t[p.i].s == s
}
func (p *sparser) expect(s string) error {
	if !p.isOp(s) {
		return fmt.Errorf("expected %q, got %q", s, p.t[p.i].s)
	}
	p.i++
	return nil
}

func parseSpecExpr(s string) (*SExpr, error) {
	ts, err := lexSpec(s)
	if err != nil {
		return nil, err
	}
	p := &sparser{t: ts}
	e, err := p.iff()
	if err != nil {
		return nil, fmt.Errorf("%v in %q", err, s)
	}
	if p.peek().k != "eof" {
		return nil, fmt.Errorf("trailing %q in %q", p.peek().s, s)
	}
	return e, nil
}

func bin(op string, a, b *SExpr) *SExpr { return &SExpr{Op: "bin", Tok: op, Args: []*SExpr{a, b}} }

func (p *sparser) iff() (*SExpr, error) {
	a, err := p.imp()
	if err != nil {
		return nil, err
	}
	for p.isOp("<==>") {
		p.next()
		b, err := p.imp()
		if err != nil {
			return nil, err
		}
		a = bin("<==>", a, b)
	}
	return a, nil
}

func (p *sparser) imp() (*SExpr, error) {
	a, err := p.or()
	if err != nil {
		return nil, err
	}
	if p.isOp("==>") {
		p.next()
		b, err := p.imp()
		if err != nil {
			return nil, err
		}
		return bin("==>", a, b), nil
	}
	return a, nil
}

func (p *sparser) or() (*SExpr, error) {
	a, err := p.and()
	if err != nil {
		return nil, err
	}
	for p.isOp("||") {
		p.next()
		b, err := p.and()
		if err != nil {
			return nil, err
		}
		a = bin("||", a, b)
	}
	return a, nil
}

func (p *sparser) and() (*SExpr, error) {
	a, err := p.cmp()
	if err != nil {
		return nil, err
	}
	for p.isOp("&&") {
		p.next()
		b, err := p.cmp()
		if err != nil {
			return nil, err
		}
		a = bin("&&", a, b)
	}
	return a, nil
}

func (p *sparser) cmp() (*SExpr, error) {
	a, err := p.add()
	if err != nil {
		return nil, err
	}
	for _, op := range []string{"==", "!=", "<=", ">=", "<", ">"} {
		if p.isOp(op) {
			p.next()
			b, err := p.add()
			if err != nil {
				return nil, err
			}
			return bin(op, a, b), nil
		}
	}
	return a, nil
}

func (p *sparser) add() (*SExpr, error) {
	a, err := p.mul()
	if err != nil {
		return nil, err
	}
	for p.isOp("+") || p.isOp("-") {
		op := p.next().s
		b, err := p.mul()
		if err != nil {
			return nil, err
		}
		a = bin(op, a, b)
	}
	return a, nil
}

func (p *sparser) mul() (*SExpr, error) {
	a, err := p.unary()
	if err != nil {
		return nil, err
	}
	for p.isOp("*") || p.isOp("/") || p.isOp("%") || p.isOp("<<") {
		op := p.next().s
		b, err := p.unary()
		if err != nil {
			return nil, err
		}
		a = bin(op, a, b)
	}
	return a, nil
}

func (p *sparser) unary() (*SExpr, error) {
	if p.isOp("!") || p.isOp("-") {
		op := p.next().s
		a, err := p.unary()
		if err != nil {
			return nil, err
		}
		return &SExpr{Op: "un", Tok: op, Args: []*SExpr{a}}, nil
	}
	return p.postfix()
}

func (p *sparser) postfix() (*SExpr, error) {
	a, err := p.primary()
	if err != nil {
		return nil, err
	}
	for {
		switch {
		case p.isOp("."):
			p.next()
			t := p.next()
			if t.k != "id" {
				return nil, fmt.Errorf("expected field name after '.'")
			}
			a = &SExpr{Op: "sel", Tok: t.s, Args: []*SExpr{a}}
		case p.isOp("("):
			p.next()
			args := []*SExpr{a}
			for !p.isOp(")") {
				x, err := p.iff()
				if err != nil {
					return nil, err
				}
				args = append(args, x)
				if p.isOp(",") {
					p.next()
				} else if !p.isOp(")") {
					return nil, fmt.Errorf("expected , or ) in call")
				}
			}
			p.next()
			a = &SExpr{Op: "call", Args: args}
		case p.isOp("["):
			p.next()
			x, err := p.iff()
			if err != nil {
				return nil, err
			}
			if err := p.expect("]"); err != nil {
				return nil, err
			}
			a = &SExpr{Op: "index", Args: []*SExpr{a, x}}
		default:
			return a, nil
		}
	}
}

func (p *sparser) primary() (*SExpr, error) {
	t := p.next()
	switch t.k {
	case "num":
		return &SExpr{Op: "num", Tok: t.s}, nil
	case "str":
		return &SExpr{Op: "str", Tok: t.s}, nil
	case "id":
		switch t.s {
		case "true", "false":
			return &SExpr{Op: "bool", Tok: t.s}, nil
		case "forall", "exists":
			v := p.next()
			if v.k != "id" {
				return nil, fmt.Errorf("quantifier variable expected")
			}
			// type: tokens up to '::'
			var ty []string
			for !p.isOp("::") {
				if p.peek().k == "eof" {
					return nil, fmt.Errorf("quantifier needs ::")
				}
				ty = append(ty, p.next().s)
			}
			p.next()
			body, err := p.iff()
			if err != nil {
				return nil, err
			}
			return &SExpr{Op: t.s, Var: v.s, VarT: strings.Join(ty, ""), Args: []*SExpr{body}}, nil
		}
		return &SExpr{Op: "id", Tok: t.s}, nil
	case "op":
		if t.s == "(" {
			e, err := p.iff()
			if err != nil {
				return nil, err
			}
			if err := p.expect(")"); err != nil {
				return nil, err
			}
			return e, nil
		}
		if t.s == "*" {
			// pointer deref in specs: *p
			a, err := p.unary()
			if err != nil {
				return nil, err
			}
			return &SExpr{Op: "un", Tok: "*", Args: []*SExpr{a}}, nil
		}
	}
	return nil, fmt.Errorf("unexpected token %q", t.s)
}
