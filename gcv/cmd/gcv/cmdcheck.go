package main

import (
	"sync/atomic"
	"regexp"
	"os/exec"
	"strings"
	"fmt"
	"os"
	"path/filepath"
	"time"
)

func cmdCheck(prop, tier string, keep bool) int {
	start := time.Now()
	p := mustLoad()
	coverClauses = tier == "thorough" || os.Getenv("GCV_COVER") != ""
	pr := runProperty(p, prop, tier, "")
	coverClauses = false
	pr.Start = start
	wd := newWorkDir()
	if !keep {
		defer wd.cleanup()
	}
	timeout := 25
	if tier == "thorough" {
		timeout = 90
	}
	solveAll(pr, wd, timeout, tier == "thorough")
	results := aggregate(pr)
	bl := loadBaseline(verifDir)
	baselineNames = bl[prop]
	violations := 0
	var known, undecided, neverCovered []string
	seen := map[string]bool{}
	for _, r := range results {
		seen[r.Name] = true
		switch r.Status {
		case "finding-confirmed":
			base := strings.Replace(r.Name, "/finding:", "/ensures:", 1)
			if _, ok := p.findings[base]; !ok {
				base = strings.Replace(r.Name, "/finding:", "/relational:", 1)
			}
			if kf, ok := p.findings[base]; ok {
				fmt.Printf("KNOWN-FINDING: property=%s %s [obligation %s fails inside region: %s]\n", prop, kf.What, base, kf.Region)
				known = append(known, base)
			}
		case "finding-not-reproduced":
			fmt.Printf("NOTE: known finding for %s no longer reproduces inside its region\n", r.Name)
		case "discharged", "covered", "cover-undecided":
		case "undecidable":
			reason := ""
			if r.Failing != nil {
				reason = r.Failing.Undecidable
				if reason == "" {
					reason = "depends on " + r.Failing.Tainted
				}
			}
			undecided = append(undecided, r.Name)
			fmt.Printf("UNDECIDED %s (%s)\n", r.Name, reason)
		case "never-covered":
			neverCovered = append(neverCovered, r.Name)
			fmt.Printf("WEAK-CLAUSE %s: no execution path can satisfy the hypothesis of this postcondition (it states nothing); not a violation\n", r.Name)
		case "vacuous":
			fmt.Printf("VACUOUS %s: precondition/invariant unsatisfiable\n", r.Name)
			violations++
			rp := writeReplay(prop, r, "vacuous precondition")
			fmt.Printf("VIOLATION property=%s replay=%s no-failing-input-found\n", prop, rp)
		case "violated":
			if r.Failing != nil && r.Failing.Clause != nil && mentionsRemovedHelper(p, r.Failing.Clause.Text) {
				undecided = append(undecided, r.Name)
				fmt.Printf("UNDECIDED %s (the clause counts calls of an unexported helper that no longer exists; it cannot be checked against the restructured code)\n", r.Name)
				continue
			}
			violations++
			var rr *ReplayResult
			if r.Failing != nil && r.Failing.Result.Status == "sat" && os.Getenv("GCV_NOREPLAY") == "" {
				x := attemptReplay(p, prop, r.Failing)
				rr = &x
			}
			rp := writeReplayWith(prop, r, "", rr)
			if rr != nil && rr.Confirmed {
				fmt.Printf("VIOLATION property=%s replay=%s obligation=%s (counterexample replayed on the real code: %s)\n", prop, rp, r.Name, rr.Reason)
			} else {
				fmt.Printf("VIOLATION property=%s replay=%s obligation=%s no-failing-input-found\n", prop, rp, r.Name)
			}
		case "unknown":
			if contains(baselineNames, r.Name) {
				violations++
				rp := writeReplay(prop, r, "obligation discharged on the baseline tree and no longer does")
				fmt.Printf("VIOLATION property=%s replay=%s obligation=%s no-failing-input-found\n", prop, rp, r.Name)
			} else {
				undecided = append(undecided, r.Name)
				fmt.Printf("UNDECIDED %s (not in the accepted baseline; not claimed)\n", r.Name)
			}
		}
	}
	// A contract whose target is an unexported, named function that no longer exists (inlined or
	// deleted by a refactoring, and not recognisably renamed): its obligations cannot be generated.
	// The callers are verified with whatever code replaced the call, so this is reported as
	// UNDECIDED, not as a violation. Exported functions and closures stay strict.
	removedHelper := func(fn string) bool {
		if _, ok := p.fns[fn]; ok || isAssumedContract(p, fn) {
			return false
		}
		if k := strings.Index(fn, "$"); k >= 0 {
			// a closure (or bound-method wrapper) that no longer exists: closures are never part of
			// the exported API; whether they exist is a matter of code structure
			return true
		}
		i := strings.LastIndex(fn, ".")
		if i < 0 || i+1 >= len(fn) {
			return false
		}
		c := fn[i+1]
		return !(c >= 'A' && c <= 'Z')
	}
	lenient := func(obl string) bool {
		owner := obl
		if i := oblSep(obl); i >= 0 {
			owner = obl[:i]
			rest := obl[i+1:]
			if strings.HasPrefix(rest, "pre:") || strings.HasPrefix(rest, "owns:callee_requires_lock:") {
				callee := strings.TrimPrefix(strings.TrimPrefix(rest, "pre:"), "owns:callee_requires_lock:")
				if removedHelper(qualifyShort(p, callee)) {
					return true
				}
				// "(*limit.VegasLimit).shouldProbe.inv(l)" -> strip the clause label
				for j := len(callee); j > 0; j-- {
					if callee[j-1] == '.' {
						if removedHelper(qualifyShort(p, callee[:j-1])) {
							return true
						}
					}
				}
			}
		}
		return removedHelper(owner)
	}
	undecidedFuncs := map[string]bool{}
	for _, f := range pr.Funcs {
		if u := pr.FuncResults[f].Unsupported; u != "" {
			if nf := newFunctionIn(u); nf != "" {
				undecidedFuncs[f] = true
				undecided = append(undecided, f+"/supported")
				fmt.Printf("UNDECIDED %s/supported (%s; %s did not exist when the baseline was accepted: new code of a shape the executor cannot inline, nothing is claimed about it)\n", f, u, nf)
				continue
			}
			if removedHelper(f) {
				undecided = append(undecided, f+"/supported")
				fmt.Printf("UNDECIDED %s/supported (unexported helper no longer exists; its contract is not claimed, callers are verified with the code that replaced it)\n", f)
				continue
			}
			violations++
			r := &NamedResult{Name: f + "/supported", Kind: "supported", Status: "violated"}
			rp := writeReplay(prop, r, u)
			fmt.Printf("VIOLATION property=%s replay=%s obligation=%s (%s) no-failing-input-found\n", prop, rp, r.Name, u)
		}
	}
	ownerSeen := map[string]bool{}
	for n := range seen {
		if k := oblSep(n); k >= 0 {
			ownerSeen[n[:k]] = true
		}
	}
	for _, n := range baselineNames {
		if !seen[n] {
			owner := n
			if k := oblSep(n); k >= 0 {
				owner = n[:k]
			}
			if undecidedFuncs[owner] {
				undecided = append(undecided, n+"/exists")
				continue
			}
			if k := oblSep(n); k >= 0 && (strings.HasPrefix(n[k+1:], "safety:") || strings.HasPrefix(n[k+1:], "owns:")) && ownerSeen[owner] {
				// the function is still analysed and no longer performs the operation (dereference,
				// index, division, access to a guarded field, call of a lock-requiring helper ...) that
				// this safety / ownership obligation guarded: nothing is left to prove
				fmt.Printf("NOTE: %s is no longer generated (the guarded operation was removed from %s)\n", n, owner)
				continue
			}
			if lenient(n) {
				undecided = append(undecided, n+"/exists")
				fmt.Printf("UNDECIDED %s/exists (belongs to the contract of an unexported helper that no longer exists)\n", n)
				continue
			}
			violations++
			r := &NamedResult{Name: n + "/exists", Kind: "exists", Status: "violated"}
			rp := writeReplay(prop, r, "obligation of the accepted baseline is no longer generated")
			fmt.Printf("VIOLATION property=%s replay=%s obligation=%s no-failing-input-found\n", prop, rp, r.Name)
		}
	}
	if n := atomic.LoadInt32(&skippedInstances); n > 0 {
		fmt.Printf("NOTE: %d path instances were not solved after the first %d failing ones (the run already reports violations)\n", n, failureBudget)
	}
	if len(pr.Obls) == 0 {
		fmt.Printf("VIOLATION property=%s replay=%s no-failing-input-found\n", prop, filepath.Join(verifDir, "replays", prop, "no_obligations.json"))
		violations++
	}
	extra := map[string]interface{}{}
	if tier == "thorough" && violations == 0 && os.Getenv("GCV_REPO") == "" {
		extra["selftest_must_fail_corpus"] = runSelftest(prop)
	}
	defect := false
	if tier == "thorough" {
		extra["postcondition_hypotheses_never_satisfiable"] = neverCovered
		var single []string
		for _, r := range results {
			for _, sv := range r.Solvers {
				if strings.HasSuffix(sv, "(single)") {
					single = append(single, r.Name)
					break
				}
			}
		}
		extra["discharged_by_a_single_solver_only"] = single
		if len(single) > 0 {
			fmt.Printf("%s: %d of the obligations were decided by one solver only within the timeout (listed in the evidence); all others by two agreeing solvers\n", prop, len(single))
		}
		// bounded validation of the trusted base (never counted as proof): operator models and
		// math axioms against the real Go operations, plus a canary that must be reported
		rep := runModelValidation(seedFromEnv())
		os.Setenv("GCV_VALIDATE_CANARY", "1")
		canary := runModelValidation(seedFromEnv())
		os.Unsetenv("GCV_VALIDATE_CANARY")
		canaryOK := false
		for _, f := range canary.Failures {
			if strings.Contains(f, "CANARY") {
				canaryOK = true
			}
		}
		// executor conformance on this property's constructible methods (bounded; reported, never
		// counted as proof and never changes the exit status: real runs involve math/rand)
		conf := runConform(p, "", pr.Funcs)
		cpaths, ccons, cbad := 0, 0, 0
		for _, c := range conf {
			cpaths += c.Replayed
			ccons += c.Consistent
			cbad += len(c.Inconsistent)
			for _, s := range c.Inconsistent {
				fmt.Printf("CONFORMANCE-NOTE %s %s: the real run is not admitted by any symbolic return path: %s\n", prop, c.Func, truncate(s, 300))
			}
		}
		fmt.Printf("%s: executor conformance (bounded, not proof): %d symbolic return paths replayed on the real code, %d consistent, %d inconsistent\n", prop, cpaths, ccons, cbad)
		extra["bounded_checks"] = map[string]interface{}{"model_validation": rep, "canary_detected": canaryOK, "executor_conformance": conf}
		fmt.Printf("%s: model validation (bounded, not proof): %d operator cases agree with Go, %d skipped as inexact/overflow (A1/A2), axiom instances %v, canary detected=%v\n",
			prop, rep.Cases-len(rep.Failures), rep.Skipped, rep.Axioms, canaryOK)
		if rep.Error != "" || len(rep.Failures) > 0 || !canaryOK {
			defect = true
			fmt.Printf("CHECK-DEFECT %s: model validation failed (%s %v): gcv's semantics disagree with Go; nothing this run reports should be trusted\n", prop, rep.Error, rep.Failures)
		}
	}
	if err := writeEvidence(verifDir, pr, results, violations, known, undecided, extra); err != nil {
		fmt.Fprintln(os.Stderr, "evidence:", err)
		return 2
	}
	n := 0
	for _, r := range results {
		if r.Status == "discharged" && r.Kind != "vacuity" {
			n++
		}
	}
	fmt.Printf("%s: %d named obligations discharged (%d path instances), %d violations, %.1fs\n", prop, n, len(pr.Obls), violations, time.Since(start).Seconds())
	if violations > 0 {
		return 1
	}
	if defect {
		return 2
	}
	return 0
}

func writeReplay(prop string, r *NamedResult, reason string) string {
	return writeReplayWith(prop, r, reason, nil)
}

func writeReplayWith(prop string, r *NamedResult, reason string, rr *ReplayResult) string {
	dir := filepath.Join(verifDir, "replays", prop)
	os.MkdirAll(dir, 0o755)
	path := filepath.Join(dir, unsafeName.ReplaceAllString(r.Name, "_")+".json")
	rec := map[string]interface{}{"property": prop, "obligation": r.Name, "status": r.Status, "reason": reason}
	if r.Failing != nil {
		rec["solver"] = r.Failing.Result.Solver
		rec["solver_status"] = r.Failing.Result.Status
		rec["solver_output"] = truncate(r.Failing.Result.Raw, 6000)
		rec["goal"] = r.Failing.Goal
		rec["path"] = r.Failing.PathID
		rec["model_inputs"] = modelInputs(r.Failing)
		if r.Failing.Clause != nil {
			rec["clause"] = r.Failing.Clause.Text
			rec["clause_at"] = fmt.Sprintf("%s:%d", r.Failing.Clause.File, r.Failing.Clause.Line)
		}
	}
	if rr != nil {
		rec["replay"] = rr
	}
	writeJSON(path, rec)
	return path
}

func truncate(s string, n int) string {
	if len(s) > n {
		return s[:n] + "...[truncated]"
	}
	return s
}

// runSelftest (thorough tier): every seeded property-breaking change kept under
// /verif/seeded/<prop>-<n>/ is applied to a scratch copy of /repo (outside /repo and /verif) and
// the property's obligations are generated and solved against it; each must make at least one
// named obligation fail. A miss is a weakness of the machinery and is reported in the evidence;
// it is never a property violation.
func runSelftest(prop string) []map[string]interface{} {
	var out []map[string]interface{}
	seeds, _ := filepath.Glob(filepath.Join(verifDir, "seeded", prop+"-*"))
	for _, sd := range seeds {
		rec := map[string]interface{}{"seed": filepath.Base(sd)}
		scr, err := os.MkdirTemp("", "gcv-selftest-")
		if err != nil {
			continue
		}
		func() {
			defer os.RemoveAll(scr)
			if o, err := exec.Command("rsync", "-a", "--exclude", ".git", repoDir+"/", scr+"/").CombinedOutput(); err != nil {
				rec["error"] = string(o)
				return
			}
			cmd := exec.Command("patch", "-s", "-p1", "-i", filepath.Join(sd, "patch.diff"))
			cmd.Dir = scr
			if o, err := cmd.CombinedOutput(); err != nil {
				rec["skipped"] = "patch does not apply to the current tree: " + truncate(string(o), 200)
				return
			}
			p2, err := loadProg(scr, repoPkgDirs)
			if err != nil {
				rec["caught"] = true
				rec["by"] = []string{"tree no longer loads: " + truncate(err.Error(), 200)}
				return
			}
			pr := runProperty(p2, prop, "quick", "")
			wd := newWorkDir()
			solveAll(pr, wd, 10, false)
			wd.cleanup()
			var by []string
			bl := loadBaseline(verifDir)
			seen := map[string]bool{}
			for _, r := range aggregate(pr) {
				seen[r.Name] = true
				if r.Status == "violated" || r.Status == "vacuous" || (r.Status == "unknown" && contains(bl[prop], r.Name)) {
					by = append(by, r.Name)
				}
			}
			for _, f := range pr.Funcs {
				if u := pr.FuncResults[f].Unsupported; u != "" {
					by = append(by, f+"/supported")
				}
			}
			for _, n := range bl[prop] {
				if !seen[n] {
					by = append(by, n+"/exists")
				}
			}
			if len(by) > 6 {
				by = by[:6]
			}
			rec["caught"] = len(by) > 0
			rec["by"] = by
		}()
		if c, ok := rec["caught"].(bool); ok && !c {
			fmt.Printf("SELFTEST-MISS %s: seeded change %s is not detected by the %s obligations\n", prop, filepath.Base(sd), prop)
		}
		out = append(out, rec)
	}
	return out
}


// qualifyShort maps the short callee name used in pre: labels ("(*limit.VegasLimit).shouldProbe",
// "limiter.blockUntilSignaled") to the full function name used as key of p.fns / the contracts.
func qualifyShort(p *Prog, short string) string {
	if _, ok := p.specs.Funcs[short]; ok {
		return short
	}
	for n := range p.specs.Funcs {
		if shortName(n) == short {
			return n
		}
	}
	return short
}


// mentionsRemovedHelper: the clause text names (in a string literal, i.e. as a call event) a named,
// unexported function of the repository that has a contract but no longer exists.
func mentionsRemovedHelper(p *Prog, text string) bool {
	parts := strings.Split(text, "\"")
	for i := 1; i < len(parts); i += 2 {
		q := strings.TrimPrefix(parts[i], "go ")
		full := qualifyShort(p, q)
		if _, has := p.specs.Funcs[full]; !has {
			continue
		}
		if _, ok := p.fns[full]; ok || strings.Contains(full, "$") || isAssumedContract(p, full) {
			continue
		}
		j := strings.LastIndex(full, ".")
		if j < 0 || j+1 >= len(full) {
			continue
		}
		c := full[j+1]
		if !(c >= 'A' && c <= 'Z') {
			return true
		}
	}
	return false
}


// newFunctionIn: the unsupported-reason names an inlined callee with a loop; returns that callee's
// name if it was not part of the repository when the baseline was accepted.
func newFunctionIn(reason string) string {
	const pre = "inlined callee "
	i := strings.Index(reason, pre)
	j := strings.Index(reason, " contains a loop")
	if i < 0 || j < 0 {
		return ""
	}
	name := reason[i+len(pre) : j]
	all, ok := baselineParamsOf("#all")
	if !ok {
		return ""
	}
	for _, n := range all {
		if n == name {
			return ""
		}
	}
	return name
}


var oblSepRe = regexp.MustCompile(`/(ensures|inv|pre|frame|owns|safety|loop_init|loop_step|refines|refines_pre|implements|relational|rely|vacuity|cover|finding|table|lemma|dyntype|conform|supported|exists):?`)

// oblSep: index of the "/" that separates the function name from kind:label in an obligation name
// (package paths contain slashes too).
func oblSep(name string) int {
	loc := oblSepRe.FindStringIndex(name)
	if loc == nil {
		return -1
	}
	return loc[0]
}
