package main

// verifyRelational is the two-run product of DESIGN §2.10 (implemented in relational2.go once
// the single-run engine is stable).
func (x *Exec) verifyRelational() verifyResult { return verifyResult{} }
