package main

import (
	"fmt"
	"go/types"
	"strings"
)

// Two-run (relational) obligations, DESIGN §2.10.
//
//   //@ relational[C08] label varies rtt: hyp ==> r2(l.estimatedLimit) <= r1(l.estimatedLimit)
//
// The function is executed twice from ONE symbolic pre-state; the parameters listed after
// `varies` get independent values in the second run. r1(e) / r2(e) denote e evaluated in the
// final state of run 1 / run 2 (parameters resolve to that run's values); old(e) is the shared
// pre-state. All return paths of a run are merged into one disjunction
//      OR_i ( path_i  AND  obs = value_of_obs_on_path_i )
// so the obligation has size |paths1| + |paths2|, not their product.

type relObs struct {
	key  string
	expr *SExpr
	typ  types.Type
	c    [2]Val // observation constants for run 1 / run 2
}

func collectObs(e *SExpr, out map[string]*relObs, order *[]string) {
	if e.Op == "call" && e.Args[0].Op == "id" && (e.Args[0].Tok == "r1" || e.Args[0].Tok == "r2") && len(e.Args) == 2 {
		k := e.Args[1].String()
		if _, ok := out[k]; !ok {
			out[k] = &relObs{key: k, expr: e.Args[1]}
			*order = append(*order, k)
		}
		return
	}
	for _, a := range e.Args {
		collectObs(a, out, order)
	}
}

type relPath struct {
	pc  []string
	obs map[string]Val
}

func commonPrefix(a, b []string) int {
	n := 0
	for n < len(a) && n < len(b) && a[n] == b[n] {
		n++
	}
	return n
}

func (x *Exec) verifyRelational() (res verifyResult) {
	defer func() {
		if r := recover(); r != nil {
			switch e := r.(type) {
			case unsupportedErr:
				res.Unsupported = "relational: " + e.msg
			case specErr:
				res.Unsupported = "relational spec error: " + e.msg
			default:
				panic(r)
			}
		}
		res.Obls = x.obls
		for n := range x.notes {
			res.Notes = append(res.Notes, n)
		}
		decl := x.D.text()
		for _, o := range x.obls {
			o.DeclText = decl
			o.NeedsSqrt = x.usedSqrt
			o.NeedsLog = x.usedLog
		}
	}()
	x.relMode = true
	x.findLoops()
	for _, cl := range x.spec.Relational {
		if !hasProp(cl.Props, x.prop) {
			continue
		}
		x.relClause(cl)
	}
	return
}

func (x *Exec) relClause(cl *Clause) {
	// the clause text was parsed as a whole expression; "varies a, b:" is carried in the label text
	varies := map[string]bool{}
	for _, v := range cl.Varies {
		varies[v] = true
	}
	obsMap := map[string]*relObs{}
	var order []string
	collectObs(cl.Expr, obsMap, &order)

	x.params = map[string]Val{}
	x.inputs = map[string]Val{}
	x.binds = map[string]Val{}
	s0 := x.initState("")
	env := x.specEnv(s0, s0.heap, nil)
	for _, m := range x.spec.Maintains {
		v := env.eval(mustParse(m.Text))
		s0.assume(env.invOf(v, ""))
	}
	env.assumeHeld = true
	for _, c := range x.spec.Requires {
		s0.assume(env.evalBool(c.Expr))
	}
	env.assumeHeld = false
	x.entryHeld = map[string]bool{}
	for k := range s0.held {
		x.entryHeld[k] = true
	}
	x.entryHeap = copyHeap(s0.heap)
	params1 := map[string]Val{}
	for k, v := range x.params {
		params1[k] = v
	}

	runOnce := func(start *State, params map[string]Val) []relPath {
		var paths []relPath
		x.params = params
		x.callCount = map[string]int{}
		x.retHook = func(s *State, res []Val) {
			e := x.specEnv(s, x.entryHeap, x.resultVars(res))
			rp := relPath{pc: append([]string(nil), s.pc...), obs: map[string]Val{}}
			for _, k := range order {
				v := e.eval(obsMap[k].expr)
				if isUntyped(v.Typ) {
					specFail("relational observation %s has no type", k)
				}
				rp.obs[k] = v
				obsMap[k].typ = v.Typ
			}
			// evaluating observations may have appended range facts
			rp.pc = append([]string(nil), s.pc...)
			paths = append(paths, rp)
		}
		x.paths = 0
		x.run(start)
		x.retHook = nil
		return paths
	}

	s1 := s0.clone()
	paths1 := runOnce(s1, params1)

	// second run: same pre-state, fresh values for the varied parameters
	s2 := s0.clone()
	params2 := map[string]Val{}
	for k, v := range params1 {
		params2[k] = v
	}
	f2 := s2.top()
	for i, p := range x.fn.Params {
		name := p.Name()
		if !varies[name] {
			continue
		}
		nv := x.freshVal(s2, p.Type(), "p."+name+"#2")
		f2.regs[p] = nv
		params2[name] = nv
		if i == 0 && x.fn.Signature.Recv() != nil {
			params2["this"] = nv
		}
	}
	x.params = params2
	env2 := x.specEnv(s2, s2.heap, nil)
	for _, c := range x.spec.Requires {
		s2.assume(env2.evalBool(c.Expr))
	}
	base2 := len(s2.pc)
	_ = base2
	paths2 := runOnce(s2, params2)

	if len(paths1) == 0 || len(paths2) == 0 {
		specFail("relational: no return path")
	}
	// observation constants
	for _, k := range order {
		o := obsMap[k]
		for r := 0; r < 2; r++ {
			v := Val{Typ: o.typ}
			for _, lf := range leavesOf(o.typ) {
				v.L = append(v.L, x.D.fresh(fmt.Sprintf("obs%d", r+1), lf.Sort))
			}
			o.c[r] = v
		}
	}
	// pair product: one small conjunctive obligation per (path of run 1, path of run 2)
	fname := fnName(x.fn)
	kf, hasKF := x.P.findings[fname+"/relational:"+cl.Label]
	base := len(s0.pc)
	n := 0
	for i, p1 := range paths1 {
		for j, p2 := range paths2 {
			pc := append([]string(nil), p1.pc...)
			// p2.pc = s0.pc + run-2 parameter facts + run-2 path; skip the shared prefix
			pc = append(pc, p2.pc[base:]...)
			for _, k := range order {
				o := obsMap[k]
				for l := range o.c[0].L {
					pc = append(pc, sEq(o.c[0].L[l], p1.obs[k].L[l]))
					pc = append(pc, sEq(o.c[1].L[l], p2.obs[k].L[l]))
				}
			}
			sg := s0.clone()
			sg.pc = pc
			genv := &Env{x: x, s: sg, heap: x.entryHeap, old: x.entryHeap, vars: map[string]Val{}, rel: obsMap}
			for k, v := range params1 {
				genv.vars[k] = v
			}
			goal := genv.evalBool(cl.Expr)
			if hasKF && kf.Region != "" {
				region := genv.evalBool(mustParse(kf.Region))
				x.obls = append(x.obls, &Obligation{Name: fname + "/finding:" + cl.Label, Func: fname, Kind: "finding", Label: cl.Label, Props: cl.Props,
					PathID: i*1000 + j, PC: sg.pc, Goal: sOr(sNot(region), goal), Clause: cl, Inputs: x.inputs})
				goal = sOr(region, goal)
			}
			x.obls = append(x.obls, &Obligation{Name: fname + "/relational:" + cl.Label, Func: fname, Kind: "relational", Label: cl.Label, Props: cl.Props,
				PathID: i*1000 + j, PC: sg.pc, Goal: goal, Clause: cl, Inputs: x.inputs,
				Note: fmt.Sprintf("two-run product, path pair (%d,%d) of %dx%d", i, j, len(paths1), len(paths2))})
			n++
		}
	}
	x.note(fmt.Sprintf("relational %s: %d x %d return paths = %d path-pair obligations", cl.Label, len(paths1), len(paths2), n))
}

func parseVaries(text string) ([]string, string) {
	// "varies a, b: expr"
	t := strings.TrimSpace(text)
	if !strings.HasPrefix(t, "varies ") {
		return nil, text
	}
	i := strings.Index(t, ":")
	if i < 0 {
		return nil, text
	}
	var vs []string
	for _, v := range strings.Split(t[7:i], ",") {
		if v = strings.TrimSpace(v); v != "" {
			vs = append(vs, v)
		}
	}
	return vs, strings.TrimSpace(t[i+1:])
}
