package main

import (
	"encoding/json"
	"fmt"
	"os"
	"os/exec"
	"path/filepath"
	"sort"
	"strings"
)

// evalTables runs the real package initialisation and returns the []int tables by name.
func evalTables(p *Prog, pkg string, globals []string) (map[string][]int, error) {
	tmp, err := os.MkdirTemp("", "gcv-tbl-")
	if err != nil {
		return nil, err
	}
	defer os.RemoveAll(tmp)
	pkgName := filepath.Base(pkg)
	var b strings.Builder
	b.WriteString("package " + pkgName + "\n\nimport (\n\t\"encoding/json\"\n\t\"os\"\n\t\"testing\"\n)\n\n")
	b.WriteString("func TestGcvDumpTables(t *testing.T) {\n\tm := map[string][]int{}\n")
	for _, g := range globals {
		b.WriteString(fmt.Sprintf("\tm[%q] = %s\n", g, g))
	}
	b.WriteString("\tb, _ := json.Marshal(m)\n\tif err := os.WriteFile(os.Getenv(\"GCV_OUT\"), b, 0o644); err != nil {\n\t\tt.Fatal(err)\n\t}\n}\n")
	testFile := filepath.Join(tmp, "zz_gcv_tables_test.go")
	os.WriteFile(testFile, []byte(b.String()), 0o644)
	ov := map[string]map[string]string{"Replace": {filepath.Join(p.repo, pkg, "zz_gcv_tables_test.go"): testFile}}
	ovb, _ := json.Marshal(ov)
	ovFile := filepath.Join(tmp, "ov.json")
	os.WriteFile(ovFile, ovb, 0o644)
	out := filepath.Join(tmp, "out.json")
	cmd := exec.Command("go", "test", "-overlay", ovFile, "-vet=off", "-count=1", "-timeout", "60s", "-run", "^TestGcvDumpTables$", "./"+pkg+"/")
	cmd.Dir = p.repo
	cmd.Env = append(goEnv(), "GCV_OUT="+out)
	if o, err := cmd.CombinedOutput(); err != nil {
		return nil, fmt.Errorf("table evaluation failed: %v\n%s", err, o)
	}
	data, err := os.ReadFile(out)
	if err != nil {
		return nil, err
	}
	m := map[string][]int{}
	if err := json.Unmarshal(data, &m); err != nil {
		return nil, err
	}
	return m, nil
}

// proveTableFacts turns every table fact tagged with prop into one ground obligation: the
// conjunction of the fact over every entry of the evaluated table.
func proveTableFacts(p *Prog, prop string) ([]*Obligation, []string, string) {
	byPkg := map[string][]*TableFact{}
	for _, tf := range p.specs.Tables {
		if prop == "" || hasProp(tf.Props, prop) {
			byPkg[tf.Pkg] = append(byPkg[tf.Pkg], tf)
		}
	}
	var obls []*Obligation
	var funcs []string
	var pkgs []string
	for k := range byPkg {
		pkgs = append(pkgs, k)
	}
	sort.Strings(pkgs)
	for _, pkg := range pkgs {
		seen := map[string]bool{}
		var globals []string
		for _, tf := range byPkg[pkg] {
			g := tf.Global[strings.LastIndex(tf.Global, ".")+1:]
			if !seen[g] {
				seen[g] = true
				globals = append(globals, g)
			}
		}
		tables, err := evalTables(p, pkg, globals)
		if err != nil {
			return nil, nil, err.Error()
		}
		for _, tf := range byPkg[pkg] {
			g := tf.Global[strings.LastIndex(tf.Global, ".")+1:]
			tbl := tables[g]
			x := &Exec{P: p, spec: &FuncSpec{LoopAssigns: map[int][]string{}}, D: newDecls(), notes: map[string]bool{}, inputs: map[string]Val{}, params: map[string]Val{}, callCount: map[string]int{}, binds: map[string]Val{}}
			s := &State{heap: map[string]string{}, held: map[string]heldLock{}}
			var parts []string
			for i, v := range tbl {
				env := &Env{x: x, s: s, heap: s.heap, old: s.heap, vars: map[string]Val{
					"i": intVal(fmt.Sprint(i)), "v": intVal(sInt(int64(v))), "n": intVal(fmt.Sprint(len(tbl)))}}
				parts = append(parts, env.evalBool(tf.Expr))
			}
			name := tf.Global + "/table:" + tf.Label
			o := &Obligation{Name: name, Func: tf.Global, Kind: "table", Label: tf.Label, Props: tf.Props, Goal: sAnd(parts...),
				Clause: &Clause{Text: tf.Text, File: tf.File, Line: tf.Line}, Inputs: map[string]Val{},
				Note: fmt.Sprintf("table-evaluation: %d entries of the initialised table (exhaustive over the table as built with the default environment)", len(tbl))}
			if len(tbl) == 0 {
				o.Goal = "false"
			}
			o.DeclText = x.D.text()
			obls = append(obls, o)
			funcs = append(funcs, tf.Global)
		}
	}
	return obls, funcs, ""
}
