package main

import (
	"sync/atomic"
	"golang.org/x/tools/go/ssa"
	"context"
	"go/token"
	"go/types"
	"regexp"
	"encoding/json"
	"fmt"
	"os"
	"path/filepath"
	"sort"
	"strings"
	"sync"
	"time"
)

type KnownFinding struct {
	Property   string `json:"property"`
	Obligation string `json:"obligation"`
	Region     string `json:"region,omitempty"`
	What       string `json:"what"`
	Status     string `json:"status,omitempty"` // "" = open finding, "fixed"
	Commit     string `json:"commit,omitempty"`
}

type KnownFindings struct {
	Findings []KnownFinding `json:"findings"`
	Fixed    []string       `json:"fixed"`
}

func loadKnownFindings(verifDir string) *KnownFindings {
	kf := &KnownFindings{}
	b, err := os.ReadFile(filepath.Join(verifDir, "known_findings.json"))
	if err != nil {
		return kf
	}
	if err := json.Unmarshal(b, kf); err != nil {
		fmt.Fprintln(os.Stderr, "known_findings.json:", err)
	}
	return kf
}

type Baseline map[string][]string

func loadBaseline(verifDir string) Baseline {
	b, err := os.ReadFile(filepath.Join(verifDir, "baseline_obligations.json"))
	bl := Baseline{}
	if err != nil {
		return bl
	}
	json.Unmarshal(b, &bl)
	return bl
}

// funcsForProp returns the specified functions that carry a clause tagged with prop.
func funcsForProp(p *Prog, prop string) []string {
	var out []string
	for name, fs := range p.specs.Funcs {
		if fs.Trusted || isAssumedContract(p, name) {
			continue
		}
		if specMentions(p, fs, prop) {
			out = append(out, name)
		}
	}
	sort.Strings(out)
	return out
}

func specMentions(p *Prog, fs *FuncSpec, prop string) bool {
	if prop == "" {
		return true
	}
	for _, c := range fs.Ensures {
		if hasProp(c.Props, prop) && len(c.Props) > 0 {
			return true
		}
	}
	for _, c := range fs.LoopInvs {
		if hasProp(c.Props, prop) && len(c.Props) > 0 {
			return true
		}
	}
	for _, c := range fs.REnsures {
		if hasProp(c.Props, prop) && len(c.Props) > 0 {
			return true
		}
	}
	for _, c := range fs.Relational {
		if hasProp(c.Props, prop) && len(c.Props) > 0 {
			return true
		}
	}
	for _, q := range fs.Safety {
		if q == prop {
			return true
		}
	}
	for _, q := range fs.Owns {
		if q == prop {
			return true
		}
	}
	for _, m := range fs.Maintains {
		if len(m.Props) > 0 && hasProp(m.Props, prop) {
			return true
		}
	}
	for _, m := range fs.Establishes {
		if len(m.Props) > 0 && hasProp(m.Props, prop) {
			return true
		}
	}
	for _, r := range fs.Refines {
		if len(r.Props) > 0 && hasProp(r.Props, prop) {
			return true
		}
	}
	// a default closure proved against a field contract is verified under every property that
	// field contract's clauses are tagged with
	if fs.Implements != "" {
		if fc, ok := p.specs.Funcs[fs.Implements]; ok {
			for _, c := range fc.Ensures {
				if len(c.Props) > 0 && hasProp(c.Props, prop) {
					return true
				}
			}
		}
	}
	return false
}

type PropRun struct {
	Prop        string
	Tier        string
	Obls        []*Obligation
	FuncResults map[string]verifyResult
	Funcs       []string
	Notes       map[string]bool
	Start       time.Time
}

var globalMu sync.Mutex

func runProperty(p *Prog, prop, tier string, onlyFunc string) *PropRun {
	pr := &PropRun{Prop: prop, Tier: tier, FuncResults: map[string]verifyResult{}, Notes: map[string]bool{}, Start: time.Now()}
	names := funcsForProp(p, prop)
	if prop == "C17" && onlyFunc == "" {
		names = sweepFuncs(p, names)
	}
	if onlyFunc != "" {
		names = []string{onlyFunc}
	}
	pr.Funcs = names
	for _, n := range p.renameNotes {
		pr.Notes[n] = true
	}
	if onlyFunc == "" {
		// induction base: every invariant clause this property relies on is established by a
		// constructor contract that is proved under this property; otherwise say so
		est := invEstablishers(p)
		for tn, ts := range p.specs.Types {
			if ts.PartOf != "" {
				continue
			}
			have := false
			for _, fn := range est[tn] {
				if fs := p.specs.Funcs[fn]; fs != nil && specMentions(p, fs, prop) {
					have = true
				}
			}
			for _, c := range ts.Invs {
				if hasProp(c.Props, prop) && len(c.Props) > 0 && !have {
					pr.Notes["invariant "+tn+"."+c.Label+" is assumed at method entry but no constructor contract proved under "+prop+" establishes it (induction base missing)"] = true
				}
			}
		}
	}
	if onlyFunc == "" || onlyFunc == "tables" {
		tobls, tfuncs, terr := proveTableFacts(p, prop)
		if terr != "" {
			pr.FuncResults["table-evaluation"] = verifyResult{Unsupported: terr}
			pr.Funcs = append(pr.Funcs, "table-evaluation")
		}
		for i, o := range tobls {
			pr.Obls = append(pr.Obls, o)
			if _, ok := pr.FuncResults[tfuncs[i]]; !ok {
				pr.Funcs = append(pr.Funcs, tfuncs[i])
				pr.FuncResults[tfuncs[i]] = verifyResult{Paths: 1, RetPaths: 1}
			}
		}
		if onlyFunc == "tables" {
			return pr
		}
	}
	// spec lemmas tagged with this property are proved here
	for _, lm := range p.specs.Lemmas {
		if onlyFunc != "" && onlyFunc != lm.Name {
			continue
		}
		if onlyFunc == "" && !(len(lm.Props) > 0 && hasProp(lm.Props, prop)) {
			continue
		}
		res := proveLemma(p, lm)
		pr.Funcs = append(pr.Funcs, lm.Name)
		pr.FuncResults[lm.Name] = res
		pr.Obls = append(pr.Obls, res.Obls...)
	}
	if onlyFunc != "" {
		if _, isLemma := pr.FuncResults[onlyFunc]; isLemma {
			return pr
		}
	}
	// symbolic execution is single-threaded per function; functions are independent but share
	// type-id tables, so they run sequentially (fast) and only solving is parallel.
	for _, name := range names {
		fs := p.specs.Funcs[name]
		if fs == nil {
			fs = &FuncSpec{Name: name, LoopAssigns: map[int][]string{}}
			if prop == "C17" {
				// discipline-only run of a function without a contract
				fs.Owns = []string{"C17"}
				fs.AutoInv = true
			}
		}
		fn, ok := p.fns[name]
		if !ok {
			pr.FuncResults[name] = verifyResult{Unsupported: "function not found in the source tree (contract target missing)"}
			continue
		}
		runs := []string{""}
		_ = runs
		x := newExec(p, fn, fs, prop)
		res := x.verify()
		if len(fs.REnsures) > 0 && res.Unsupported == "" {
			rx := newExec(p, fn, fs, prop)
			rx.relyMode = true
			rres := rx.verify()
			for _, o := range rres.Obls {
				if o.Kind == "rely" {
					res.Obls = append(res.Obls, o)
				}
			}
			res.Notes = append(res.Notes, rres.Notes...)
			if rres.Unsupported != "" {
				res.Unsupported = rres.Unsupported
			}
		}
		if len(fs.Relational) > 0 && res.Unsupported == "" {
			rx := newExec(p, fn, fs, prop)
			rres := rx.verifyRelational()
			res.Obls = append(res.Obls, rres.Obls...)
			res.Notes = append(res.Notes, rres.Notes...)
			if rres.Unsupported != "" {
				res.Unsupported = rres.Unsupported
			}
		}
		pr.FuncResults[name] = res
		for _, n := range res.Notes {
			pr.Notes[n] = true
		}
		for _, o := range res.Obls {
			if o.Kind == "rely" && !hasProp(o.Props, prop) {
				continue
			}
			if prop == "C17" && o.Kind != "owns" && o.Kind != "vacuity" {
				continue // the C17 check is the ownership discipline only
			}
			if strings.Contains(o.DeclText, "opaque.") {
				o.Axioms = lemmaAxioms(p, x, o.DeclText)
			}
			if o.Kind == "finding" && !hasProp(o.Props, prop) {
				continue
			}
			if o.Kind == "pre" || o.Kind == "frame" || o.Kind == "vacuity" || o.Kind == "dyntype" || hasProp(o.Props, prop) {
				pr.Obls = append(pr.Obls, o)
			}
		}
	}
	return pr
}

func smtText(o *Obligation, negate bool) string { return smtTextPC(o, negate, o.PC) }

var declNameRe = regexp.MustCompile(`\(declare-(?:const|fun) (\S+)`)

func isSymChar(c byte) bool {
	return c != '(' && c != ')' && c != ' ' && c != '\n' && c != '\t'
}

func symbolsOf(t string, declared map[string]bool, into map[string]bool) {
	i := 0
	for i < len(t) {
		if !isSymChar(t[i]) {
			i++
			continue
		}
		j := i
		for j < len(t) && isSymChar(t[j]) {
			j++
		}
		if declared[t[i:j]] {
			into[t[i:j]] = true
		}
		i = j
	}
}

// slicePC keeps the assumptions in the cone of influence of the goal. Definitions
// "(= name term)" are followed only from the defined name to its body, so facts that merely
// *use* a relevant value (branch conditions on derived integers, quantified facts about named
// copies) are dropped. Dropping assumptions is sound for proving the goal; a "sat" answer on a
// sliced obligation is never reported.
func slicePC(o *Obligation) []string {
	declared := map[string]bool{}
	for _, m := range declNameRe.FindAllStringSubmatch(o.DeclText, -1) {
		declared[m[1]] = true
	}
	type item struct {
		text string
		def  string
		syms map[string]bool
		used bool
	}
	items := make([]*item, len(o.PC))
	for i, a := range o.PC {
		it := &item{text: a, syms: map[string]bool{}}
		symbolsOf(a, declared, it.syms)
		if strings.HasPrefix(a, "(= ") {
			rest := a[3:]
			if sp := strings.IndexByte(rest, ' '); sp > 0 && !strings.ContainsAny(rest[:sp], "()") && declared[rest[:sp]] {
				name := rest[:sp]
				if strings.Contains(name, "!") && !strings.HasPrefix(name, "H.") {
					it.def = name
				}
			}
		}
		items[i] = it
	}
	rel := map[string]bool{}
	symbolsOf(o.Goal, declared, rel)
	changed := true
	for changed {
		changed = false
		for _, it := range items {
			if it.used {
				continue
			}
			take := false
			if it.def != "" {
				take = rel[it.def]
			} else {
				for sy := range it.syms {
					if rel[sy] {
						take = true
						break
					}
				}
			}
			if take {
				it.used = true
				changed = true
				for sy := range it.syms {
					rel[sy] = true
				}
			}
		}
	}
	var out []string
	for _, it := range items {
		if it.used {
			out = append(out, it.text)
		}
	}
	return out
}

func smtTextPC(o *Obligation, negate bool, pc []string) string {
	var b strings.Builder
	b.WriteString(smtPrelude)
	b.WriteString(o.DeclText)
	b.WriteString(o.Axioms)
	body := strings.Join(pc, "\n") + o.Goal
	if o.NeedsSqrt && (strings.Contains(body, "fsqrt") || strings.Contains(body, "u_sqrt")) {
		b.WriteString(smtSqrtAxioms)
	}
	if o.NeedsLog && (strings.Contains(body, "flog10") || strings.Contains(body, "u_log10")) {
		b.WriteString(smtLog10Axioms)
	}
	for _, a := range pc {
		b.WriteString("(assert " + a + ")\n")
	}
	if negate {
		b.WriteString("(assert " + sNot(o.Goal) + ")\n")
	}
	b.WriteString("(check-sat)\n(get-model)\n")
	return b.String()
}

var coveredMu sync.Mutex
var coveredNames = map[string]bool{}

func solveOne(o *Obligation, wd *workDir, timeoutS int, agree bool) {
	if o.Kind == "cover" {
		// reachability of a hypothesis: one satisfiable instance is enough, and a solver that cannot
		// find a model of a nonlinear path condition in a few seconds will not find one in 90
		coveredMu.Lock()
		done := coveredNames[o.Name]
		coveredMu.Unlock()
		if done {
			o.Result = SolverResult{Status: "sat", Solver: "covered-by-another-path"}
			return
		}
		f := wd.file(o.Name)
		os.WriteFile(f, []byte(smtText(o, true)), 0o644)
		o.File = f
		best, _ := solvePortfolio(f, 4, false)
		o.Result = best
		if best.Status == "sat" {
			coveredMu.Lock()
			coveredNames[o.Name] = true
			coveredMu.Unlock()
		}
		return
	}
	f := wd.file(o.Name)
	os.WriteFile(f, []byte(smtText(o, true)), 0o644)
	o.File = f
	stageable := o.Kind != "vacuity" && o.Kind != "finding" && !agree
	first := timeoutS
	if stageable {
		first = 2
	}
	best, all := solvePortfolio(f, first, agree)
	if best.Status == "unknown" && o.Kind != "vacuity" && o.Kind != "finding" {
		// second stage: the full query with the remaining budget races the same goal under the
		// cone-of-influence slice of the assumptions (fewer assumptions: unsat there implies unsat
		// of the full query; sat there means nothing)
		sl := slicePC(o)
		type res struct {
			b   SolverResult
			all []SolverResult
			sl  bool
		}
		ch := make(chan res, 2)
		rctx, rcancel := context.WithCancel(context.Background())
		defer rcancel()
		n := 0
		if stageable {
			n++
			go func() {
				b, a := solvePortfolioCtx(rctx, f, timeoutS, agree)
				ch <- res{b, a, false}
			}()
		}
		if len(sl) < len(o.PC) {
			n++
			f2 := wd.file(o.Name + ".sliced")
			os.WriteFile(f2, []byte(smtTextPC(o, true, sl)), 0o644)
			go func() {
				b, a := solvePortfolioCtx(rctx, f2, timeoutS, agree)
				ch <- res{b, a, true}
			}()
		}
		spent := best.Seconds
		for i := 0; i < n; i++ {
			r := <-ch
			if r.sl {
				if r.b.Status == "unsat" {
					r.b.Solver += "+slice"
					r.b.Seconds += spent
					best, all = r.b, r.all
					break
				}
				continue
			}
			if r.b.Status != "unknown" {
				r.b.Seconds += spent
				best, all = r.b, r.all
				break
			}
		}
	}
	if best.Status == "unknown" && stageable && os.Getenv("GCV_NORETRY") == "" {
		// no answer within the budget: before this is reported, rule out that the machine was just
		// busy (several checks running side by side) - one more attempt with four times the time
		r2, a2 := solvePortfolio(f, 4*timeoutS, agree)
		if r2.Status != "unknown" {
			r2.Seconds += best.Seconds
			r2.Solver += "(retry)"
			best, all = r2, a2
		}
	}
	if agree && best.Status == "unsat" {
		n := 0
		for _, r := range all {
			if r.Status == "unsat" {
				n++
			}
			if r.Status == "sat" {
				best = r
				best.Status = "disagree"
			}
		}
		best.Raw = fmt.Sprintf("agreement: %d solvers unsat", n)
		if n < 2 {
			best.Solver += "(single)" // only one portfolio member answered within the timeout
		}
	}
	o.Result = best
}

// solveAll discharges the obligations. Obligations are grouped by symbolic path: when a path
// carries several non-trivial obligations its path condition is checked first, and an
// infeasible path discharges all of them at once (pc unsat implies pc and not goal unsat).
// failureBudget: after this many failing path instances the remaining obligations of the run are
// skipped (a violated tree is reported in bounded time; the unchanged tree never gets here).
var failureBudget int32 = 12
var failedInstances, skippedInstances int32

func solveAll(pr *PropRun, wd *workDir, timeoutS int, agree bool) {
	atomic.StoreInt32(&failedInstances, 0)
	atomic.StoreInt32(&skippedInstances, 0)
	type key struct {
		fn   string
		path int
		n    int
	}
	groups := map[key][]*Obligation{}
	var order []key
	for _, o := range pr.Obls {
		if o.Goal == "true" && o.Kind != "vacuity" {
			o.Result = SolverResult{Status: "unsat", Solver: "trivial"}
			continue
		}
		k := key{o.Func, o.PathID, len(o.PC)}
		if o.Kind == "vacuity" || o.Kind == "table" || o.Kind == "lemma" {
			k.n = -1 - len(order)
		}
		if _, ok := groups[k]; !ok {
			order = append(order, k)
		}
		groups[k] = append(groups[k], o)
	}
	var wg sync.WaitGroup
	sem := make(chan struct{}, 5)
	for _, k := range order {
		g := groups[k]
		wg.Add(1)
		go func(g []*Obligation) {
			defer wg.Done()
			if len(g) >= 3 {
				sem <- struct{}{}
				probe := &Obligation{Name: g[0].Func + "/path_feasible", Func: g[0].Func, Kind: "path", PC: g[0].PC, Goal: "false", DeclText: g[0].DeclText,
					Axioms: g[0].Axioms, NeedsSqrt: g[0].NeedsSqrt, NeedsLog: g[0].NeedsLog}
				f := wd.file(probe.Name)
				os.WriteFile(f, []byte(smtText(probe, true)), 0o644)
				r, _ := solvePortfolio(f, 2, false)
				<-sem
				if r.Status == "unsat" {
					for _, o := range g {
						o.Result = SolverResult{Status: "unsat", Solver: "infeasible-path(" + r.Solver + ")", Seconds: r.Seconds / float64(len(g))}
					}
					return
				}
			}
			var iw sync.WaitGroup
			for _, o := range g {
				iw.Add(1)
				go func(o *Obligation) {
					defer iw.Done()
					sem <- struct{}{}
					defer func() { <-sem }()
					if atomic.LoadInt32(&failedInstances) >= failureBudget {
						// enough failures to report: do not spend minutes of solver time on the rest
						o.Result = SolverResult{Status: "skipped", Solver: "skipped-after-first-failures"}
						atomic.AddInt32(&skippedInstances, 1)
						return
					}
					solveOne(o, wd, timeoutS, agree)
					if o.Result.Status != "unsat" && o.Kind != "vacuity" && o.Kind != "cover" && o.Kind != "finding" && o.Kind != "conform" && o.Tainted == "" && o.Undecidable == "" {
						atomic.AddInt32(&failedInstances, 1)
					}
				}(o)
			}
			iw.Wait()
		}(g)
	}
	wg.Wait()
}

// aggregated result per named obligation
type NamedResult struct {
	Name     string   `json:"name"`
	Kind     string   `json:"kind"`
	Paths    int      `json:"path_instances"`
	Status   string   `json:"status"`
	Solvers  []string `json:"solvers"`
	Seconds  float64  `json:"seconds"`
	MaxSeconds float64 `json:"max_instance_seconds"`
	Failing  *Obligation `json:"-"`
}

func aggregate(pr *PropRun) []*NamedResult {
	m := map[string]*NamedResult{}
	var order []string
	for _, o := range pr.Obls {
		nr, ok := m[o.Name]
		if !ok {
			nr = &NamedResult{Name: o.Name, Kind: o.Kind, Status: "discharged"}
			m[o.Name] = nr
			order = append(order, o.Name)
		}
		nr.Paths++
		nr.Seconds += o.Result.Seconds
		if o.Result.Seconds > nr.MaxSeconds {
			nr.MaxSeconds = o.Result.Seconds
		}
		found := false
		for _, s := range nr.Solvers {
			if s == o.Result.Solver {
				found = true
			}
		}
		if !found && o.Result.Solver != "" {
			nr.Solvers = append(nr.Solvers, o.Result.Solver)
		}
		if o.Kind == "finding" {
			// expected to fail inside the recorded region; "sat" confirms the finding is still there
			if o.Result.Status == "sat" {
				nr.Status = "finding-confirmed"
				nr.Failing = o
			} else if nr.Status != "finding-confirmed" {
				nr.Status = "finding-not-reproduced"
			}
			continue
		}
		if o.Undecidable != "" {
			if nr.Status == "discharged" {
				nr.Status = "undecidable"
				nr.Failing = o
			}
			continue
		}
		if o.Kind == "cover" {
			// covered as soon as one path can satisfy the hypothesis
			switch {
			case o.Result.Status == "sat":
				nr.Status = "covered"
			case nr.Status == "covered":
			case o.Result.Status != "unsat":
				nr.Status = "cover-undecided" // a solver could not decide satisfiability: no verdict
			case nr.Status == "discharged":
				nr.Status = "never-covered"
			}
			continue
		}
		if o.Kind == "vacuity" {
			switch o.Result.Status {
			case "sat":
			case "unsat":
				nr.Status = "vacuous"
				nr.Failing = o
			default:
				if nr.Status == "discharged" {
					nr.Status = "discharged" // satisfiability undecided: tolerated, reported in notes
				}
			}
			continue
		}
		switch o.Result.Status {
		case "unsat", "skipped":
		case "sat", "disagree":
			if o.Tainted != "" {
				// it fails only on a path where a callee's clause could not be assumed
				if nr.Status == "discharged" {
					nr.Status = "undecidable"
					nr.Failing = o
				}
				break
			}
			if nr.Status != "violated" {
				nr.Status = "violated"
				nr.Failing = o
			}
		default:
			if nr.Status == "discharged" {
				nr.Status = "unknown"
				nr.Failing = o
			}
		}
	}
	sort.Strings(order)
	var out []*NamedResult
	for _, n := range order {
		out = append(out, m[n])
	}
	return out
}

type Evidence struct {
	PropertyID  string                 `json:"property_id"`
	Tier        string                 `json:"tier"`
	Seed        int                    `json:"seed"`
	Level       string                 `json:"level"`
	Coverage    map[string]interface{} `json:"coverage"`
	Assumptions []string               `json:"assumptions"`
	WallS       float64                `json:"wall_s"`
	Violations  int                    `json:"violations"`
}

var propResidue = map[string][]string{}

func writeEvidence(verifDir string, pr *PropRun, results []*NamedResult, violations int, known []string, undecided []string, extra map[string]interface{}) error {
	if os.Getenv("GCV_NOEVIDENCE") != "" {
		return nil // scratch-copy runs (tools/mut.sh, selftest) never touch the evidence of the real tree
	}
	obl, dis := 0, 0
	totals := map[string]float64{}
	counts := map[string]int{}
	var per []map[string]interface{}
	for _, r := range results {
		if r.Kind == "vacuity" || r.Kind == "finding" || r.Kind == "cover" {
			continue
		}
		if r.Status == "unknown" && !contains(baselineNames, r.Name) {
			continue // undecided new obligation: not claimed
		}
		if r.Status == "undecidable" {
			continue
		}
		obl++
		if r.Status == "discharged" {
			dis++
		}
		per = append(per, map[string]interface{}{"name": r.Name, "status": r.Status, "path_instances": r.Paths, "solvers": r.Solvers, "seconds": round3(r.Seconds), "max_instance_seconds": round3(r.MaxSeconds)})
	}
	for _, o := range pr.Obls {
		totals[o.Result.Solver] += o.Result.Seconds
		counts[o.Result.Solver]++
	}
	var samples []interface{}
	for _, o := range pr.Obls {
		if o.Kind == "ensures" || o.Kind == "inv" || o.Kind == "relational" || o.Kind == "owns" || o.Kind == "safety" {
			txt := ""
			if o.Clause != nil {
				txt = o.Clause.Text
			}
			goal := o.Goal
			if len(goal) > 600 {
				goal = goal[:600] + "..."
			}
			samples = append(samples, map[string]interface{}{"obligation": o.Name, "path": o.PathID, "clause": txt, "smt_goal": goal, "assumptions_on_path": len(o.PC), "result": o.Result.Status, "solver": o.Result.Solver})
			if len(samples) >= 4 {
				break
			}
		}
	}
	if len(samples) == 0 {
		samples = append(samples, "no obligations generated")
	}
	var funcs []map[string]interface{}
	for _, f := range pr.Funcs {
		r := pr.FuncResults[f]
		funcs = append(funcs, map[string]interface{}{"function": f, "paths": r.Paths, "return_paths": r.RetPaths, "unsupported": r.Unsupported})
	}
	var notes []string
	for n := range pr.Notes {
		notes = append(notes, n)
	}
	sort.Strings(notes)
	trusted := []string{
		"go/packages + go/types + go/ssa (x/tools v0.29.0) translate /repo's working tree faithfully (A13)",
		"SMT solvers z3 5.1.0 / cvc5 1.0.3 / z3 4.8.12 are sound (A13); first definite answer wins in the quick tier",
		"gcv's symbolic semantics of go/ssa (DESIGN §2): mathematical integers with exact conversions, float64 as extended reals with exact special values and no rounding (A1, A2)",
		"monitor rule: one critical section per operation makes its contract hold in every interleaving (A10)",
	}
	ev := Evidence{PropertyID: pr.Prop, Tier: pr.Tier, Seed: seedFromEnv(), Level: "proof", WallS: round3(time.Since(pr.Start).Seconds()), Violations: violations}
	ev.Coverage = map[string]interface{}{
		"obligations": obl, "discharged": dis,
		"checker_cmd":  fmt.Sprintf("bin/gcv check %s --tier %s", pr.Prop, pr.Tier),
		"trusted_base": trusted,
		"samples":      samples,
		"functions_under_contract": funcs,
		"per_obligation": per,
		"path_instances_solved": len(pr.Obls),
		"solver_seconds": totals, "solver_wins": counts,
		"known_findings_reported": known,
		"undecided_not_claimed": undecided,
		"explanation": "every obligation is (path condition ∧ contract assumptions ∧ ¬goal) generated from the go/ssa form of /repo's current working tree; discharged means unsat",
	}
	for k, v := range extra {
		ev.Coverage[k] = v
	}
	// residue.json (committed, read-only): what is not decided, what is derived on paper,
	// which catalogue assumptions the property rests on
	if rb, err := os.ReadFile(filepath.Join(verifDir, "residue.json")); err == nil {
		var res map[string]json.RawMessage
		if json.Unmarshal(rb, &res) == nil {
			var texts map[string]string
			json.Unmarshal(res["assumption_text"], &texts)
			var pe struct {
				Assumptions    []string `json:"assumptions"`
				DerivedOnPaper []string `json:"derived_on_paper"`
				NotDecided     []string `json:"not_decided"`
			}
			if json.Unmarshal(res[pr.Prop], &pe) == nil {
				ev.Coverage["not_decided"] = pe.NotDecided
				ev.Coverage["derived_on_paper"] = pe.DerivedOnPaper
				for _, a := range pe.Assumptions {
					notes = append(notes, "catalogue assumption "+a+": "+texts[a])
				}
			}
		}
	}
	ev.Assumptions = notes
	b, _ := json.MarshalIndent(ev, "", " ")
	os.MkdirAll(filepath.Join(verifDir, "evidence"), 0o755)
	return os.WriteFile(filepath.Join(verifDir, "evidence", pr.Prop+".json"), b, 0o644)
}

var baselineNames []string

func contains(xs []string, x string) bool {
	for _, y := range xs {
		if y == x {
			return true
		}
	}
	return false
}

func round3(f float64) float64 { return float64(int(f*1000+0.5)) / 1000 }

func seedFromEnv() int {
	var n int
	fmt.Sscan(os.Getenv("VERIF_SEED"), &n)
	return n
}

// lemmaAxioms renders every spec lemma as a quantified axiom (triggered on the opaque
// applications it mentions) for use in all other obligations.
func lemmaAxioms(p *Prog, x *Exec, declText string) string {
	var b strings.Builder
	for _, lm := range p.specs.Lemmas {
		ax, ok := lemmaFormula(p, x, lm, false)
		if !ok {
			continue
		}
		usable := true
		for _, app := range opaqueApps(ax) {
			name := strings.Fields(strings.TrimPrefix(app, "("))[0]
			if !strings.Contains(declText, "(declare-fun "+name+" ") {
				usable = false
			}
		}
		if usable {
			b.WriteString("(assert " + ax + ")\n")
		}
	}
	return b.String()
}

func lemmaFormula(p *Prog, x *Exec, lm *Lemma, ground bool) (formula string, ok bool) {
	defer func() {
		if r := recover(); r != nil {
			ok = false
		}
	}()
	vars := map[string]Val{}
	var binders []string
	var ranges []string
	for i, n := range lm.Params {
		t, err := p.lookupType(lm.PTypes[i])
		if err != nil {
			return "", false
		}
		ls := leavesOf(t)
		if len(ls) != 1 {
			return "", false
		}
		name := "lm_" + sanitize(n)
		vars[n] = Val{Typ: t, L: []string{name}}
		binders = append(binders, "("+name+" "+ls[0].Sort+")")
		if lo, hi, isInt := intRange(t); isInt {
			ranges = append(ranges, "(<= "+lo+" "+name+")", "(<= "+name+" "+hi+")")
		}
	}
	s := &State{heap: map[string]string{}, held: map[string]heldLock{}}
	env := &Env{x: x, s: s, vars: vars, heap: s.heap, old: s.heap, inQuant: !ground}
	body := env.evalBool(lm.Body)
	pats := opaqueApps(body)
	if len(pats) == 0 {
		return "", false
	}
	return "(forall (" + strings.Join(binders, " ") + ") (! " + sImp(sAnd(ranges...), body) + " :pattern (" + strings.Join(pats, " ") + ")))", true
}

// opaqueApps finds the applications "(opaque.f args)" in a term (used as triggers).
func opaqueApps(t string) []string {
	var out []string
	seen := map[string]bool{}
	for i := 0; i < len(t); i++ {
		if strings.HasPrefix(t[i:], "(opaque.") {
			d := 0
			for j := i; j < len(t); j++ {
				if t[j] == '(' {
					d++
				} else if t[j] == ')' {
					d--
					if d == 0 {
						app := t[i : j+1]
						if !seen[app] {
							seen[app] = true
							out = append(out, app)
						}
						break
					}
				}
			}
		}
	}
	return out
}

// proveLemma: the lemma body with every opaque definition revealed, for arbitrary arguments.
func proveLemma(p *Prog, lm *Lemma) verifyResult {
	var res verifyResult
	defer func() {
		if r := recover(); r != nil {
			if e, ok := r.(specErr); ok {
				res.Unsupported = "spec error: " + e.msg
				return
			}
			if e, ok := r.(unsupportedErr); ok {
				res.Unsupported = e.msg
				return
			}
			panic(r)
		}
	}()
	spec := &FuncSpec{Name: lm.Name, LoopAssigns: map[int][]string{}}
	for n, d := range p.specs.Defines {
		if d.Opaque {
			spec.Reveal = append(spec.Reveal, n)
		}
	}
	x := &Exec{P: p, spec: spec, D: newDecls(), notes: map[string]bool{}, inputs: map[string]Val{}, params: map[string]Val{}, callCount: map[string]int{}, binds: map[string]Val{}}
	s := &State{heap: map[string]string{}, held: map[string]heldLock{}}
	vars := map[string]Val{}
	for i, n := range lm.Params {
		t, err := p.lookupType(lm.PTypes[i])
		if err != nil {
			specFail("%v", err)
		}
		v := x.freshVal(s, t, "lm."+n)
		vars[n] = v
		x.inputs[n] = v
	}
	env := &Env{x: x, s: s, vars: vars, heap: s.heap, old: s.heap}
	goal := env.evalBool(lm.Body)
	o := &Obligation{Name: lm.Name + "/lemma:" + lm.Name[strings.LastIndex(lm.Name, ".")+1:], Func: lm.Name, Kind: "lemma", Label: "holds", Props: lm.Props,
		PC: append([]string(nil), s.pc...), Goal: goal, Inputs: x.inputs, Clause: &Clause{Text: lm.Text, File: lm.File, Line: lm.Line}}
	o.DeclText = x.D.text()
	o.NeedsSqrt, o.NeedsLog = x.usedSqrt, x.usedLog
	res.Obls = []*Obligation{o}
	res.Paths, res.RetPaths = 1, 1
	return res
}

// isAssumedContract: contracts on interface methods, function-typed fields, slice elements and
// captured variables have no body to verify; they are assumptions about the environment
// (valid configuration), listed in the evidence.
func isAssumedContract(p *Prog, name string) bool {
	if _, ok := p.fns[name]; ok {
		return false
	}
	if strings.Contains(name, ":") {
		return true
	}
	if _, ok := p.ifaceMethods[name]; ok {
		return true
	}
	if i := strings.LastIndex(name, "."); i > 0 {
		if nt, ok := p.named[name[:i]]; ok {
			if st, ok := nt.Underlying().(*types.Struct); ok {
				for j := 0; j < st.NumFields(); j++ {
					if st.Field(j).Name() == name[i+1:] {
						return true
					}
				}
			}
			if _, ok := nt.Underlying().(*types.Interface); ok {
				return true
			}
		}
	}
	return false
}

// sweepFuncs: every function and method of the packages C17 names (closures included), so that
// the lock discipline is checked on all code, not only on functions that carry a contract.
func sweepFuncs(p *Prog, have []string) []string {
	seen := map[string]bool{}
	for _, n := range have {
		seen[n] = true
	}
	pkgs := map[string]bool{"limit": true, "strategy": true, "limiter": true, "measurements": true, "core": true,
		"metric_registry/gometrics": true, "metric_registry/datadog": true, "limit/functions": true, "strategy/matchers": true}
	out := append([]string(nil), have...)
	for name, f := range p.fns {
		if seen[name] || len(f.Blocks) == 0 || f.Synthetic != "" {
			continue
		}
		pk := f.Pkg
		if pk == nil && f.Parent() != nil {
			pk = f.Parent().Pkg
		}
		if pk == nil || !pkgs[shortPkg(pk.Pkg)] {
			continue
		}
		if f.Name() == "init" || strings.HasPrefix(f.Name(), "init#") || strings.HasPrefix(f.Name(), "init$") {
			continue
		}
		// entry points only: exported functions and methods. Unexported helpers and closures without
		// a contract are analysed where they are called (inlined with the caller's held locks), so
		// extracting a helper that runs under its caller's lock is not an alarm.
		if f.Parent() != nil || !token.IsExported(f.Name()) {
			continue
		}
		if sp, ok := p.specs.Funcs[name]; ok && (sp.Trusted) {
			continue
		}
		seen[name] = true
		out = append(out, name)
	}
	// goroutine bodies start with no lock held whatever their spawner holds: every function or
	// closure launched by a go statement in these packages is an entry point of its own
	for _, f := range p.fns {
		pk := f.Pkg
		if pk == nil && f.Parent() != nil {
			pk = f.Parent().Pkg
		}
		if pk == nil || !pkgs[shortPkg(pk.Pkg)] {
			continue
		}
		for _, b := range f.Blocks {
			for _, in := range b.Instrs {
				var callee *ssa.Function
				switch in := in.(type) {
				case *ssa.Go:
					switch v := in.Call.Value.(type) {
					case *ssa.Function:
						callee = v
					case *ssa.MakeClosure:
						callee, _ = v.Fn.(*ssa.Function)
					}
				case *ssa.MakeClosure:
					// a closure that escapes (stored, returned, or handed to code we do not see)
					// may be run by anyone at any time: it is an entry point too. Closures that
					// are only called or deferred on the spot run under whatever their creator
					// holds and are analysed there.
					if closureEscapes(in) {
						callee, _ = in.Fn.(*ssa.Function)
					}
				}
				if callee == nil || len(callee.Blocks) == 0 {
					continue
				}
				n := fnName(callee)
				if _, known := p.fns[n]; known && !seen[n] {
					seen[n] = true
					out = append(out, n)
				}
			}
		}
	}
	sort.Strings(out)
	return out
}


// closureEscapes: some use of the closure value is not "call it here" or "defer it here".
func closureEscapes(mc *ssa.MakeClosure) bool {
	refs := mc.Referrers()
	if refs == nil {
		return true
	}
	for _, r := range *refs {
		switch u := r.(type) {
		case *ssa.Call:
			if u.Call.Value == ssa.Value(mc) {
				continue
			}
			return true // passed as an argument: the callee may store it or hand it on
		case *ssa.Defer:
			if u.Call.Value == ssa.Value(mc) {
				continue
			}
			return true
		case *ssa.Go:
			continue // handled as a goroutine body
		case *ssa.DebugRef:
			continue
		default:
			return true
		}
	}
	return false
}
